#!/usr/bin/env python3
"""X08 (beyond the listed properties) qmail-pw2u(8) prints the assignments its manual describes, and with the default rules they
mean what qmail-getpw means: the same user controls the same addresses.

  model   spec/Pw2u.tla over Users.tla (C11's qmail-users lookup and qmail-getpw rules) + Pw2uModel.tla: every passwd file of up to
          3 / 4 accounts over names {a, a-b, B, b, alias}, uids {0, 5, 6}, home missing / owned / owned by another, every address of
          a list: Assign(Table(db), address) = GetPw(db, address) (SameRules); a user whose mailnames line does not list its own
          name is not reachable under it (OwnName); without the upper-case rule the agreement must fail (sanity)
  impl    the real qmail-pw2u on generated passwd files (real home directories with real owners, malformed lines, uid 0, upper-case
          names, names with the break character), every option, users/include, exclude, mailnames, subusers, append; its output is
          parsed into entries and given to the real qmail-newu
  verdict spec/Pw2uRec.tla
This check is not part of MANIFEST.json (the property list is fixed); it is specification coverage beyond the list.
"""
import sys, os, json, argparse, subprocess, shutil
sys.path.insert(0, os.path.join(os.path.dirname(os.path.abspath(__file__)), "..", "lib"))
from vlib import *
import sandbox, sessions

NAMES = ["al", "bo", "bo-x", "cy", "Dee", "dee", "e", "bo-x-y", "mail", "f0"]
LOCALS = [b"", b"bo", b"BO", b"bo-", b"bo-x", b"bo-x-y-Z", b"Bo-X", b"bo-q", b"cy", b"cy-a-b", b"dee", b"Dee", b"DEE-x", b"e", b"e-", b"alias", b"alias-x",
          b"nobody", b"mail", b"bo.x", b"box", b"f0-f0"]


def gen_case(rng, i, work):
    """accounts, options and files for one run; creates the home directories"""
    base = os.path.join(work, "h%d" % i)
    os.makedirs(base)
    names = ["alias"] + rng.sample(NAMES, rng.choice([0, 1, 2, 3, 5]))
    rng.shuffle(names)
    db, lines = [], []
    for n in names:
        uid = rng.choice([0, 1001, 1001, 1002, 1003]) if n != "alias" or rng.random() < 0.1 else 1009
        gid = rng.choice([100, 200])
        home = os.path.join(base, n.replace("-", "_") + "_home")
        st = rng.choice(["own", "own", "own", "other", "missing"]) if n != "alias" or rng.random() < 0.1 else "own"
        own = -1
        if st != "missing":
            os.mkdir(home)
            own = uid if st == "own" else 4242
            os.chown(home, own, 0)
        db.append({"name": list(n.encode()), "uid": uid, "gid": gid, "home": list(home.encode()), "own": own})
        lines.append("%s:x:%d:%d:Gecos %s:%s:/bin/sh" % (n, uid, gid, n, home))
        if rng.random() < 0.15:
            lines.append(rng.choice(["broken:line", "nouid:x", "x:y:z", "", "short:x:12:13:g"]))
    dflt = rng.random() < 0.4
    o = {"hs": 2, "noupper": 1, "brk": 45, "slash": 0}
    argv = []
    files = {}
    if not dflt:
        for opt, eff in rng.sample([("-o", {"hs": 2}), ("-h", {"hs": 1}), ("-H", {"hs": 0}), ("-u", {"noupper": 0}), ("-U", {"noupper": 1}), ("-c.", {"brk": 46}),
                                    ("-C", {"brk": 0}), ("-/", {"slash": 1})], rng.choice([0, 1, 2, 3])):
            argv.append(opt)
            o.update(eff)
        pool = [n for n in names]
        if rng.random() < 0.3:
            files["include"] = rng.sample(pool, rng.randint(1, len(pool))) + (["alias"] if rng.random() < 0.8 else [])
        if rng.random() < 0.3:
            files["exclude"] = rng.sample([n for n in pool if n != "alias" or rng.random() < 0.1], rng.randint(0, max(0, len(pool) - 1)))
        if rng.random() < 0.4:
            ks = rng.sample(pool, rng.randint(1, min(2, len(pool))))
            files["mailnames"] = [(u, rng.sample([u, "postmaster", "info", "w-e-b", ""], rng.randint(1, 3))) for u in ks]
        if rng.random() < 0.4:
            files["subusers"] = [(rng.choice(["list", "sub-a", "adm"]), rng.choice(pool + (["ghost"] if rng.random() < 0.15 else [])), rng.choice(["", "pre", "a-b"]))
                                 for _ in range(rng.randint(1, 2))]
        if rng.random() < 0.3:
            files["append"] = rng.choice([b"=extra:bo:1:2:/h:::\n", b"+x-:cy:3:4:/c:-::\n=y:cy:3:4:/c:::\n", b"=nonl:cy:3:4:/c:::"])
    return {"i": i, "db": db, "passwd": "\n".join(lines) + ("\n" if rng.random() < 0.8 else ""), "argv": argv, "o": o, "files": files, "dflt": dflt}


def parse_table(out):
    ents, rest = [], out
    while rest:
        j = rest.find(b"\n")
        line = rest[: j + 1] if j >= 0 else rest
        if line[:1] not in (b"=", b"+") or not line.endswith(b":\n"):
            break
        f = line[1:-2].split(b":")
        if len(f) != 7 or not f[2].isdigit() or not f[3].isdigit() or int(f[2]) >= 2 ** 31 or int(f[3]) >= 2 ** 31:
            break
        ents.append({"w": 1 if line[:1] == b"+" else 0, "loc": list(f[0]), "user": list(f[1]), "uid": int(f[2]), "gid": int(f[3]), "home": list(f[4]),
                     "dash": list(f[5]), "ext": list(f[6])})
        rest = rest[len(line):]
    return ents, rest


def run_case(tree, c, lock):
    B = lambda s: list(s.encode()) if isinstance(s, str) else list(s)
    with lock:
        ud = os.path.join(tree.root, "users")
        for fn in ("include", "exclude", "mailnames", "subusers", "append", "assign", "cdb", "cdb.tmp"):
            p = os.path.join(ud, fn)
            if os.path.exists(p):
                os.unlink(p)
        f = c["files"]
        if "include" in f:
            open(os.path.join(ud, "include"), "w").write("".join(x + "\n" for x in f["include"]))
        if "exclude" in f:
            open(os.path.join(ud, "exclude"), "w").write("".join(x + "\n" for x in f["exclude"]))
        if "mailnames" in f:
            open(os.path.join(ud, "mailnames"), "w").write("".join(u + ":" + ":".join(ns) + "\n" for u, ns in f["mailnames"]))
        if "subusers" in f:
            open(os.path.join(ud, "subusers"), "w").write("".join("%s:%s:%s:\n" % s for s in f["subusers"]))
        if "append" in f:
            open(os.path.join(ud, "append"), "wb").write(f["append"])
        p = subprocess.run([tree.bin("qmail-pw2u")] + c["argv"], input=c["passwd"].encode(), stdout=subprocess.PIPE, stderr=subprocess.PIPE, cwd=tree.root, timeout=60)
        newu = 0
        if p.returncode == 0:
            open(os.path.join(ud, "assign"), "wb").write(p.stdout)
            q = subprocess.run([tree.bin("qmail-newu")], stdout=subprocess.PIPE, stderr=subprocess.PIPE, cwd=tree.root, timeout=60)
            newu = q.returncode
            if "append" in f and not f["append"].endswith(b"\n"):
                newu = 0          # an append file without a final newline makes the output malformed: the manual's business, not judged
    app = f.get("append", b"")
    out = p.stdout
    suffix = app + b".\n"
    body = out[: len(out) - len(suffix)] if out.endswith(suffix) else out
    table, rest = parse_table(body)
    tail = list(rest + suffix) if out.endswith(suffix) else list(rest)
    # an include / exclude file that exists but is empty counts as absent (control_readfile returns 0 lines -> constmap of nothing):
    # the manual says "if users/include exists": the generator never writes an empty one
    return {"db": c["db"], "alias": B("alias"), "o": c["o"], "hasincl": 1 if "include" in f else 0, "incl": [B(x) for x in f.get("include", [])],
            "hasexcl": 1 if "exclude" in f else 0, "excl": [B(x) for x in f.get("exclude", [])],
            "mana": [{"user": B(u), "names": [B(n) for n in ns]} for u, ns in f.get("mailnames", [])],
            "subs": [{"sub": B(s), "user": B(u), "pre": B(pr)} for s, u, pr in f.get("subusers", [])],
            "app": list(app), "rc": p.returncode, "table": table if p.returncode == 0 else [], "tail": tail if p.returncode == 0 else list(suffix), "newu": newu,
            "locals": [list(x) for x in LOCALS] if c["dflt"] else []}


def main():
    ap = argparse.ArgumentParser()
    ap.add_argument("--tier", default=os.environ.get("VERIF_TIER", "quick"))
    ap.add_argument("--replay")
    a = ap.parse_args()
    ck = Check("X08", a.tier)
    thorough = a.tier == "thorough"
    rng = ck.rng
    sc = ck.scratch
    for inv, expect in (("SameRules", True), ("OwnName", True), ("UpperBlind", False)):
        cfg = sc.path("pw-%s.cfg" % inv)
        with open(cfg, "w") as f:
            f.write("SPECIFICATION Spec\nCONSTANTS MaxAccts = %d\nINVARIANT %s\nCHECK_DEADLOCK FALSE\n" % (4 if thorough and expect else 3, inv))
        res = need_ok(tlc("Pw2uModel", cfg, workers=8, timeout=2400, heap="8g"), "Pw2uModel " + inv)
        if expect:
            ck.add_tlc("Pw2uModel(%s)" % inv, res)
            if res.violated:
                ck.model_violation("Pw2uModel", res)
        elif inv not in res.violated:
            raise Infra("sanity: Pw2uModel should violate " + inv)

    tree = build_tree(sc, split=3)
    work = sc.sub("homes")
    import threading
    lock = threading.Lock()          # the files of users/ are shared: one run at a time (each takes milliseconds)
    cases = [gen_case(rng, i, work) for i in range(1200 if thorough else 400)]
    # duplicates among mailnames keys / subuser names are left out: which line wins is not documented
    for c in cases:
        f = c["files"]
        if "mailnames" in f and len({u for u, _ in f["mailnames"]}) != len(f["mailnames"]):
            f["mailnames"] = f["mailnames"][:1]
    recs = [run_case(tree, c, lock) for c in cases]
    fn = sc.path("x08.ndjson")
    write_ndjson(fn, recs)
    bad, vres = tlc_validate_records("Pw2uRec", "Pw2uRec.cfg", fn, len(recs), chunk=20, heap="6g", timeout=2400)
    ck.add_tlc("Pw2uRec", vres)
    for c, r in zip(cases, recs):
        ck.count((tuple(c["argv"]), tuple(sorted(c["files"])), len(c["db"]), r["rc"], len(r["table"])), nontrivial=True)
    ck.cov["traces_validated_against_impl"] = len(recs)
    ck.cov["runs_by_exit_status"] = {str(k): sum(1 for r in recs if r["rc"] == k) for k in sorted(set(r["rc"] for r in recs))}
    ck.cov["runs_with_default_rules"] = sum(1 for c in cases if c["dflt"])
    ck.cov["assignment_lines_checked"] = sum(len(r["table"]) for r in recs)
    ck.cov["runs_by_file"] = {k: sum(1 for c in cases if k in c["files"]) for k in ("include", "exclude", "mailnames", "subusers", "append")}
    best = {}
    for idx, why in bad:
        why = why.strip('"')
        if why not in best:
            best[why] = idx
    for why, idx in sorted(best.items()):
        c, r = cases[idx - 1], recs[idx - 1]
        ck.violation("pw2u:%s:opts=%s:files=%s" % (why, "".join(c["argv"]), "+".join(sorted(c["files"]))),
                     "qmail-pw2u %s with files %s on passwd %r -> exit %d, %d assignment lines" % (c["argv"], c["files"], c["passwd"][:300], r["rc"], len(r["table"])),
                     {"argv": c["argv"], "passwd": c["passwd"], "files": {k: (v.decode("latin1") if isinstance(v, bytes) else v) for k, v in c["files"].items()}})
    ck.cov["rule"] = "distinct (options, files present, number of accounts, exit status, number of lines printed)"
    ck.finish()


if __name__ == "__main__":
    main_wrapper(main)
