#!/usr/bin/env python3
"""C02 Every queue entry is always in a documented state under any interleaving.

  model   spec/QueueFiles.tla: injectors, the daemon's preprocessing and completion, the cleaner, failure clean-up, crash and
          restart, stale-entry collection and inode reuse at file granularity; invariants StateTable / NoSharedNumber / order
  impl    gated histories on the real qmail-queue (1-3 at once), qmail-send and qmail-clean with seeded random schedules at
          system-call granularity, injectors killed before each of their calls (stale leftovers), crashes of the daemon before
          its mutating calls followed by restart, the clock moved past 36 hours and the clean-up period, a second qmail-send
          started against the running one
  verdict spec/QueueStateTrace.tla: TLC replays the directory events of all processes and evaluates QueueState!StateTableOk
          after every event and EventVerdict / GcVerdict (documented order of disappearance, 36-hour rule) at every removal
"""
import sys, os, json, argparse
sys.path.insert(0, os.path.join(os.path.dirname(os.path.abspath(__file__)), "..", "lib"))
from vlib import *
import histories, qsengine


def base(idx, nmsg, rng):
    msgs, outcomes = [], {}
    for m in range(nmsg):
        rc = [b"q%dm%dl@local.test" % (idx, m), b"q%dm%dr@remote.test" % (idx, m)][: rng.choice([1, 2, 2])]
        for r in rc:
            outcomes[r.decode()] = rng.choice(["K", "D", "ZK", "K"])
        msgs.append({"body": b"Subject: q\n\n" + b"x" * rng.choice([0, 10, 300, 3000]) + b"\n", "sender": rng.choice([b"qs%d@origin.test" % idx, b""]), "rcpts": rc})
    outcomes["qs%d@origin.test" % idx] = "K"
    outcomes["postmaster@test.example"] = rng.choice(["K", "D"])
    return {"id": "c02-%d" % idx, "seed": rng.randrange(1 << 30), "messages": msgs, "outcomes": outcomes, "strict": 0, "conc": (10, 20), "announce": (120, 120),
            "random_sched": 1, "keep_fs": 1, "drain_rounds": 30}


def gen(rng, thorough):
    hs = []
    idx = 0
    # 1..3 injectors at once against the running daemon, random schedules
    for _ in range(150 if thorough else 45):
        idx += 1
        k = rng.choice([1, 2, 2, 3])
        h = base(idx, k, rng)
        h["script"] = [("inject_many", list(range(k))), ("answer", "random"), ("nextdue", 0), ("answer", "fifo")]
        if rng.random() < 0.3:
            h["script"].insert(1, ("crash", rng.random() < 0.5))
        hs.append(h)
    # the daemon crashes before its k-th mutating call while injectors are running
    for k in range(1, 61 if thorough else 31, 1 if thorough else 2):
        idx += 1
        h = base(idx, 2, rng)
        h["script"] = [("inject_many", [0, 1]), ("answer", "fifo"), ("nextdue", 0), ("answer", "fifo")]
        h["kill"] = {"role": "qmail-send", "k": k, "lossy": rng.random() < 0.5}
        h["id"] = "c02-crash-send-%d" % k
        hs.append(h)
    # injectors that die before each of their calls leave stale entries; 36 hours and a clean-up period later they are collected
    for k in range(2, 16):
        idx += 1
        h = base(idx, 2, rng)
        h["script"] = [("inject_kill", 0, k), ("inject", 1), ("answer", "fifo"), ("advance", 76432), ("advance", 33568 + k), ("advance", 19600 - k), ("advance", 76431), ("advance", 76431), ("advance", 76431),
                       ("second_daemon",)]
        h["id"] = "c02-stale-%d" % k
        hs.append(h)
    # injectors whose own 24-hour timer fires before each of their calls (SIGALRM: they exit at once; what they leave is a
    # documented state - fully queued, or a leftover that is collected later)
    for k in range(2, 18):
        idx += 1
        h = base(idx, 2, rng)
        h["script"] = [("inject_kill", 0, k, 14), ("inject", 1), ("answer", "fifo"), ("advance", 130000), ("advance", 76431), ("advance", 76431)]
        h["id"] = "c02-alrm-%d" % k
        hs.append(h)
    # an injector that stalls (its client stops sending) before each of its calls, started by a program that had SIGALRM blocked: its
    # 24-hour timer must kill it all the same, because 36 hours after the message file was last touched the daemon collects the
    # file - an injector that is still alive then would go on to publish an envelope for a message that is gone
    for k in (range(3, 13) if thorough else range(4, 13, 2)):      # (not while it holds the trigger open: the daemon would poll it)
        idx += 1
        h = base(idx, 2, rng)
        h["script"] = [("inject_hold", 0, k, 1), ("inject", 1), ("answer", "fifo"), ("advance", 86401), ("signal_held", "ALRM"), ("advance", 50000),
                       ("advance", 76431), ("advance", 76431), ("release",), ("answer", "fifo"), ("advance", 100)]
        h["id"] = "c02-stalled-injector-%d" % k
        hs.append(h)
    # the clock is set back (a correction of the system clock) while an injector is stalled, and the daemon restarted: the message
    # file's access time then lies in the FUTURE of the daemon's clock - it is young, not ancient, and must not be collected
    for k in (range(4, 13) if thorough else (5, 8, 11)):
        idx += 1
        h = base(idx, 2, rng)
        h["script"] = [("inject_hold", 0, k, 0), ("inject", 1), ("answer", "fifo"), ("stop",), ("advance", -30), ("start",), ("advance", 5), ("release",), ("answer", "fifo"), ("advance", 100)]
        h["id"] = "c02-clock-set-back-%d" % k
        hs.append(h)
    # injectors that abort (envelope cut short) and whose clean-up meets a failing call (each of their calls in turn): what they
    # leave behind is still a documented state, and is collected later
    for k in range(6, 16):
        idx += 1
        h = base(idx, 2, rng)
        h["script"] = [("inject_fault", 0, k, "5", rng.choice([1, 2, 5])), ("inject", 1), ("answer", "fifo"), ("advance", 130000), ("advance", 76431), ("advance", 76431)]
        h["id"] = "c02-abort-fault-%d" % k
        hs.append(h)
    # the 36-hour rule sampled inside the window: the clean-up scan runs at start-up, so the daemon is restarted when the stale
    # entry is 100000 + x seconds old (must stay) and again when it is older than 36 hours (may go)
    for k, age in ((3, 100800), (5, 115000), (9, 129000), (12, 129599)):
        idx += 1
        h = base(idx, 2, rng)
        h["script"] = [("inject_kill", 0, k), ("advance", age), ("stop",), ("start",), ("advance", 129700 - age), ("stop",), ("start",), ("advance", 100)]
        h["id"] = "c02-stale-window-%d" % age
        hs.append(h)
    # entries queued while the daemon is down for more than 36 hours are S4 with an old body: the clean-up scan must leave them alone
    for v in range(2):
        idx += 1
        h = base(idx, 3, rng)
        h["script"] = [("stop",), ("inject", 0), ("inject", 1), ("inject_kill", 2, 6), ("advance", 130000 + 1000 * v), ("start",), ("answer", "fifo"), ("advance", 100), ("answer", "fifo")]
        h["id"] = "c02-down-36h-%d" % v
        hs.append(h)
    # the same with many entries waiting: the clean-up scan (one mess/ entry per turn of the main loop) overtakes the
    # preprocessing of todo/ (one message per turn) and meets old bodies that have todo/N but no info/N yet
    for v in range(2):
        idx += 1
        h = base(idx, 9, rng)
        h["script"] = [("stop",)] + [("inject", k) for k in range(9)] + [("advance", 129601 + 977 * v), ("start",), ("answer", "fifo"), ("advance", 100), ("answer", "fifo")]
        h["id"] = "c02-down-36h-many-%d" % v
        hs.append(h)
    return hs


def main():
    ap = argparse.ArgumentParser()
    ap.add_argument("--tier", default=os.environ.get("VERIF_TIER", "quick"))
    ap.add_argument("--replay")
    a = ap.parse_args()
    ck = Check("C02", a.tier)
    thorough = a.tier == "thorough"

    for name, consts in [("QueueFiles-2inj", " NInj = 2\n Pool = {1, 2}\n MaxCrash = 1\n"), ("QueueFiles-1inj-2crash", " NInj = 1\n Pool = {1, 2}\n MaxCrash = 2\n")] + \
                        ([("QueueFiles-3inj", " NInj = 3\n Pool = {1, 2}\n MaxCrash = 1\n")] if thorough else []):
        cfg = ck.scratch.path(name + ".cfg")
        with open(cfg, "w") as f:
            f.write("SPECIFICATION Spec\nCONSTANTS\n" + consts + "INVARIANT Documented\nINVARIANT NoObjection\n")
        res = need_ok(tlc("QueueFiles", cfg, workers=NCPU, timeout=1500, heap="12g"), name)
        ck.add_tlc(name, res)
        if res.violated:
            ck.model_violation(name, res)

    tree = build_tree(ck.scratch, split=3)
    if a.replay:
        h = json.load(open(a.replay))["case"]["history"]
        for m in h["messages"]:
            for k in ("body", "sender"):
                m[k] = m[k].encode("latin1")
            m["rcpts"] = [r.encode("latin1") for r in m["rcpts"]]
        h["script"] = [tuple(x) for x in h["script"]]
        h.update({"random_sched": 1, "keep_fs": 1})
        hists = [h]
    else:
        hists = gen(ck.rng, thorough)
    runs = qsengine.run_histories(ck, tree, hists)
    # file-level validation
    recfile = ck.scratch.path("c02.ndjson")
    keys = ("op", "d", "n", "d2", "n2", "ino", "who", "t")
    write_ndjson(recfile, [{"ev": [{k: e[k] for k in keys} for e in r["fs"]]} for r in runs])
    bad, vres = tlc_validate_records("QueueStateTrace", "QueueStateTrace.cfg", recfile, len(runs), workers=NCPU, timeout=1500, heap="10g")
    ck.add_tlc("QueueStateTrace", vres)
    ck.cov["traces_validated_against_impl"] = len(runs)
    ck.cov["directory_events"] = sum(len(r["fs"]) for r in runs)
    for r in runs:
        ck.count(str(r["h"]["id"]) + str(r["h"]["seed"]), nontrivial=True)
        for s in r.get("second", []):
            ck.cov["second_daemon_attempts"] = ck.cov.get("second_daemon_attempts", 0) + 1
            if s["status"] != 111 or s["mutations"]:
                ck.violation("SecondDaemonTouchedTheQueue:status=%s:mutations=%s" % (s["status"], s["mutations"]),
                             "a second qmail-send exited %s and made %s changes to the queue" % (s["status"], s["mutations"]), {"history": {"id": r["h"]["id"]}})
    for r in runs[:: max(1, len(runs) // 3)][:3]:
        ck.sample({"history": r["h"]["id"], "directory_events": [(e["who"], e["op"], e["d"], e["n"], e["d2"] or "") for e in r["fs"]][:30]})
    import re
    seen = set()
    for idx, why in bad:
        m = re.match(r'"([^"]*)", (\d+)', why)
        name, pos = (m.group(1), int(m.group(2))) if m else (why, 0)
        r = runs[idx - 1]
        h = r["h"]
        if name in seen and len(seen) > 5:
            continue
        seen.add(name)
        hj = {"id": h.get("id"), "seed": h.get("seed"), "conc": list(h.get("conc", ())), "announce": list(h.get("announce", ())), "script": [list(x) for x in h["script"]],
              "outcomes": h.get("outcomes"), "kill": h.get("kill"),
              "messages": [{"body": m["body"].decode("latin1"), "sender": m["sender"].decode("latin1"), "rcpts": [x.decode("latin1") for x in m["rcpts"]]} for m in h["messages"]]}
        ck.violation("%s:hist=%s" % (name, h.get("id")), "history %s: directory event %d: %s; last events %s" % (
            h.get("id"), pos, name, [(e["who"], e["op"], e["d"], e["n"], e["d2"]) for e in r["fs"][max(0, pos - 6):pos]]), {"history": hj})
    # the abstract monitor's C02 clauses on the same histories
    bad2, vres2 = qsengine.judge(ck, runs)
    ck.add_tlc("QSendTrace", vres2)
    qsengine.report(ck, "C02", runs, bad2)
    ck.cov["rule"] = ("seeded histories: 1-3 qmail-queue processes at once against the running daemon and cleaner under random schedules at system-call granularity, a crash "
                      "(data kept / lost) at a random point or before the daemon's k-th mutating call followed by restart, injectors killed before their k-th call (k = 2..15), "
                      "clock moved by 36 h + clean-up periods, a second qmail-send against the running one; distinct by history id")
    ck.assumptions += ["one process moves at a time (gate); directory operations are synchronous", "readdir behaves as the kernel does in the recorded runs"]
    ck.finish()


if __name__ == "__main__":
    main_wrapper(main)
