#!/usr/bin/env python3
"""X06 (beyond the listed properties) The helper commands of .qmail files: bouncesaying, except, condredirect, forward and preline
return the documented instruction to qmail-local and forward / pass on exactly the message.

  model   spec/DotCmd.tla + DotCmdModel.tla: each helper's fork / wait / environment / queue logic (transcribed) against the manual
          pages for every program behaviour (not given, exit 0 / 1 / 99 / 100 / 111, killed by a signal, cannot be run) x queue
          answer x set of environment variables x preline options (61k cases)
  impl    the real binaries with stub programs and the recording queue stand-in (accepting, refusing for good, failing temporarily)
  verdict spec/DotCmdRec.tla
This check is not part of MANIFEST.json (the property list is fixed); it is specification coverage beyond the list.
"""
import sys, os, json, argparse, subprocess, itertools, stat
sys.path.insert(0, os.path.join(os.path.dirname(os.path.abspath(__file__)), "..", "lib"))
from vlib import *
import sessions

PROGS = ["none", "e0", "e1", "e99", "e100", "e111", "crash", "noexec"]
UF, RP, DT = b"From sender@origin.test Thu Jan  1 00:00:00 1970\n", b"Return-Path: <sender@origin.test>\n", b"Delivered-To: user@local.test\n"


def make_stubs(d):
    os.makedirs(d, exist_ok=True)
    for name, code in (("e0", 0), ("e1", 1), ("e99", 99), ("e100", 100), ("e111", 111)):
        with open(os.path.join(d, name), "w") as f:
            f.write('#!/bin/sh\ncat > "$STUB_OUT"\nexit %d\n' % code)
    with open(os.path.join(d, "crash"), "w") as f:
        f.write('#!/bin/sh\ncat > "$STUB_OUT"\nkill -KILL $$\n')
    for n in os.listdir(d):
        os.chmod(os.path.join(d, n), 0o755)


def run_case(tree, qq, work, stubs, c):
    i = c["i"]
    msgf = os.path.join(work, "msg%d" % i)
    outf = os.path.join(work, "out%d" % i)
    with open(msgf, "wb") as f:
        f.write(c["msg"])
    env = {"PATH": stubs + ":" + os.environ.get("PATH", "/usr/bin:/bin"), "STUB_OUT": outf}
    vals = {"SENDER": "sender@origin.test", "NEWSENDER": "new-owner@list.test", "DTLINE": DT.decode(), "UFLINE": UF.decode(), "RPLINE": RP.decode()}
    for v in c["has"]:
        env[v] = vals[v]
    env.update(qq.env("x%d" % i, exitcode={"ok": 0, "temp": 71, "perm": 31}[c["qq"]]))
    prog = [] if c["prog"] == "none" else (["no-such-program-anywhere"] if c["prog"] == "noexec" else [c["prog"]])
    tool = c["tool"]
    if tool == "bouncesaying":
        argv = ["bouncesaying", "go away, says the owner"] + prog
    elif tool == "except":
        argv = ["except"] + prog
    elif tool == "condredirect":
        argv = ["condredirect"] + (["redirected@new.test"] + prog if prog else ["redirected@new.test"])
    elif tool == "forward":
        argv = ["forward"] + [a.decode() for a in c["args"]]
    else:
        argv = ["preline"] + ["-" + x for x in c["fl"]] + prog
    with open(msgf, "rb") as f0:
        p = subprocess.run([os.path.join(tree.src, argv[0])] + argv[1:], stdin=f0, stdout=subprocess.PIPE, stderr=subprocess.PIPE, env=env, cwd=tree.root, timeout=60)
    ran = 1 if os.path.exists(outf) else 0
    out = open(outf, "rb").read() if ran else b""
    for fn in (msgf, outf):
        if os.path.exists(fn):
            os.unlink(fn)
    return {"rc": p.returncode, "ran": ran, "out": out}


def main():
    ap = argparse.ArgumentParser()
    ap.add_argument("--tier", default=os.environ.get("VERIF_TIER", "quick"))
    ap.add_argument("--replay")
    a = ap.parse_args()
    ck = Check("X06", a.tier)
    thorough = a.tier == "thorough"
    rng = ck.rng
    cfg = ck.scratch.path("DotCmdModel.cfg")
    with open(cfg, "w") as f:
        f.write("SPECIFICATION Spec\nINVARIANT AsDocumented\nCHECK_DEADLOCK FALSE\n")
    res = need_ok(tlc("DotCmdModel", cfg, workers=4, timeout=600, heap="4g"), "DotCmdModel")
    ck.add_tlc("DotCmdModel", res)
    if res.violated:
        ck.model_violation("DotCmdModel", res)
    scfg = ck.scratch.path("DotCmdSanity.cfg")
    with open(scfg, "w") as f:
        f.write("SPECIFICATION Spec\nINVARIANT Never99\nCHECK_DEADLOCK FALSE\n")
    sres = need_ok(tlc("DotCmdModel", scfg, workers=4, timeout=600, heap="4g"), "DotCmdModel sanity")
    if "Never99" not in sres.violated:
        raise Infra("sanity: DotCmdModel should violate Never99")

    tree = build_tree(ck.scratch, split=3)
    qq = sessions.QQDir(ck.scratch.path("qq"))
    work = ck.scratch.sub("work")
    stubs = ck.scratch.sub("stubs")
    make_stubs(stubs)
    allv = ["SENDER", "NEWSENDER", "DTLINE", "UFLINE", "RPLINE"]
    msgs = [b"Subject: m\n\nbody\n", b"", b"no newline at the end", bytes(range(256)) * 20, b"From: x\n\n" + b"line\n" * 3000]
    cases = []
    for tool in ("bouncesaying", "except", "condredirect", "forward", "preline"):
        progs = ["none"] if tool == "forward" else PROGS
        for prog in progs:
            for qqa in (("ok", "temp", "perm") if tool in ("condredirect", "forward") else ("ok",)):
                hassets = [allv] + [[v for v in allv if v != w] for w in allv] + ([[]] if thorough else [])
                for has in hassets:
                    fls = [[]] if tool != "preline" else [list(x) for k in range(4) for x in itertools.combinations("frd", k)]
                    for fl in fls:
                        cases.append({"tool": tool, "prog": prog, "qq": qqa, "has": has, "fl": fl, "msg": rng.choice(msgs) if len(cases) % 3 else msgs[0],
                                      "args": [b"a@one.test", b"b@two.test"] if tool == "forward" else [b"redirected@new.test"]})
    for i, c in enumerate(cases):
        c["i"] = i
    results = sessions.pmap(lambda c: run_case(tree, qq, work, stubs, c), cases)
    got = qq.collect()
    recs = []
    for c, r in zip(cases, results):
        qs = got.get("x%d" % c["i"], [])
        qmsg, qsender, qrcpts = b"", b"", []
        if qs:
            qmsg = qs[0]["msg"]
            s, rc_, _ = sessions.parse_envelope(qs[0]["env"])
            qsender, qrcpts = s or b"", rc_
        recs.append({"tool": c["tool"], "prog": c["prog"], "qq": c["qq"], "has": c["has"], "fl": c["fl"], "exit": r["rc"], "nq": len(qs), "qmsg": list(qmsg),
                     "qsender": list(qsender), "qrcpts": [list(x) for x in qrcpts], "ran": r["ran"], "out": list(r["out"]), "msg": list(c["msg"]), "dt": list(DT), "uf": list(UF), "rp": list(RP),
                     "sender": list(b"sender@origin.test"), "newsender": list(b"new-owner@list.test"), "args": [list(x) for x in c["args"]]})
        ck.count((c["tool"], c["prog"], c["qq"], tuple(c["has"]), tuple(c["fl"]), len(c["msg"])), nontrivial=True)
    f = ck.scratch.path("x06.ndjson")
    write_ndjson(f, recs)
    bad, vres = tlc_validate_records("DotCmdRec", "DotCmdRec.cfg", f, len(recs), chunk=20, heap="6g", timeout=1500)
    ck.add_tlc("DotCmdRec", vres)
    ck.cov["traces_validated_against_impl"] = len(recs)
    ck.cov["runs_by_exit_status"] = {str(k): sum(1 for r in recs if r["exit"] == k) for k in sorted(set(r["exit"] for r in recs))}
    ck.cov["forwarding_requests_seen"] = sum(1 for r in recs if r["nq"])
    best = {}
    for idx, why in bad:
        why = why.strip('"')
        if why not in best:
            best[why] = idx
    for why, idx in sorted(best.items()):
        c, r = cases[idx - 1], recs[idx - 1]
        ck.violation("dotcmd:%s:%s:prog=%s:qq=%s:has=%s:fl=%s" % (why, c["tool"], c["prog"], c["qq"], "+".join(c["has"]), "".join(c["fl"])),
                     "%s with program behaviour %s, queue %s, variables %s, options %s -> exit %d, queue program ran %d time(s), program ran=%d" % (c["tool"], c["prog"], c["qq"], c["has"], c["fl"], r["exit"], r["nq"], r["ran"]),
                     {k: v for k, v in c.items() if k not in ("msg", "args")})
    ck.cov["rule"] = "distinct (helper, program behaviour, queue answer, variables set, options, message length)"
    ck.finish()


if __name__ == "__main__":
    main_wrapper(main)
