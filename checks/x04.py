#!/usr/bin/env python3
"""X04 (beyond the listed properties) The QMQP client: qmail-qmqpc gives exactly the message and envelope it was handed to the first
server that takes the connection, reports what that server answered, and asks nobody else.

  model   spec/Qmqpc.tla + QmqpcModel.tla: the server loop of qmail-qmqpc.c (transcribed) against qmail-qmqpc(8) / qmail-queue(8)
          for every list of up to 4 / 5 servers over 7 behaviours (not an address, refused, K, Z, D, dropped, noise before K) and
          every envelope class
  impl    the real qmail-qmqpc with control/qmqpservers naming loopback addresses on which scripted QMQP servers listen (port 628,
          one address per list position and behaviour): generated server lists, messages (empty .. 200 kB, NUL and 8-bit bytes),
          envelopes (0..40 recipients, empty sender, malformed ones); and round trips through the real qmail-qmqpd with the
          recording queue stand-in behind it
  verdict spec/QmqpcRec.tla (the request on the wire is compared byte for byte with the specification's netstring encoding)
This check is not part of MANIFEST.json (the property list is fixed); it is specification coverage beyond the list.
"""
import sys, os, json, argparse, re, subprocess, threading, time, socket, select
sys.path.insert(0, os.path.join(os.path.dirname(os.path.abspath(__file__)), "..", "lib"))
from vlib import *
import sandbox, sessions

BEH = ["bad", "refuse", "K", "Z", "D", "drop", "noiseK"]
CONNECTING = ["K", "Z", "D", "drop", "noiseK", "real"]
MAXPOS = 5
PORT = 628


def ip_of(pos, beh):
    """loopback address of the scripted server at list position pos (1-based) with behaviour beh"""
    if beh == "bad":
        return ["mx.example.test", "1.2.3", "host", "1.2.3."][pos % 4]
    if beh == "refuse":
        return "127.0.%d.99" % (40 + pos)
    return "127.0.%d.%d" % (40 + pos, 1 + CONNECTING.index(beh))


class Servers:
    """scripted QMQP servers: every request received is kept with the address it came in on"""
    def __init__(self, tree, qq):
        self.tree, self.qq = tree, qq
        self.socks = {}
        self.got = []             # (pos, beh, bytes)
        self.lock = threading.Lock()
        self.stop = False
        for pos in range(1, MAXPOS + 1):
            for beh in CONNECTING:
                s = socket.socket()
                s.setsockopt(socket.SOL_SOCKET, socket.SO_REUSEADDR, 1)
                try:
                    s.bind((ip_of(pos, beh), PORT))
                except OSError as e:
                    raise Infra("cannot listen on %s:%d (%s)" % (ip_of(pos, beh), PORT, e))
                s.listen(64)
                self.socks[s] = (pos, beh)
        self.th = threading.Thread(target=self.loop, daemon=True)
        self.th.start()

    def loop(self):
        while not self.stop:
            r, _, _ = select.select(list(self.socks), [], [], 0.2)
            for s in r:
                try:
                    c, _ = s.accept()
                except OSError:
                    continue
                threading.Thread(target=self.serve, args=(c,) + self.socks[s], daemon=True).start()

    def serve(self, c, pos, beh):
        try:
            if beh == "real":
                env = {"PATH": os.environ.get("PATH", "/usr/bin:/bin"), "TCPREMOTEIP": "127.0.0.1", "TCPREMOTEHOST": "client.test", "LD_PRELOAD": sandbox.SHIM, "VERIF_ROOT": self.tree.root}
                env.update(self.qq.env("rt%d" % pos))
                p = subprocess.Popen([self.tree.bin("qmail-qmqpd")], stdin=c.fileno(), stdout=c.fileno(), stderr=subprocess.DEVNULL, env=env, cwd=self.tree.root)
                p.wait(timeout=60)
                return
            c.settimeout(30)
            buf = b""
            need = None
            while True:
                if need is None:
                    m = re.match(rb"^(\d+):", buf)
                    if m:
                        need = len(m.group(0)) + int(m.group(1)) + 1
                if need is not None and len(buf) >= need:
                    break
                try:
                    d = c.recv(65536)
                except (socket.timeout, OSError):
                    break
                if not d:
                    break
                buf += d
            with self.lock:
                self.got.append((pos, beh, buf))
            if beh == "drop":
                return
            ans = {"K": b"16:Kok 1 qp 1 done,", "Z": b"12:Ztry later.,", "D": b"9:Dgo away,", "noiseK": b"\x00\xff 9 z:\n18:Kok after noise...,"}[beh]
            try:
                c.sendall(ans)
            except OSError:
                pass
        finally:
            try:
                c.close()
            except OSError:
                pass

    def close(self):
        self.stop = True
        for s in self.socks:
            s.close()


def gen_case(rng, i, thorough):
    env = rng.choice(["ok"] * 8 + ["nosender", "badrcpt", "cut", "empty"])
    n = rng.choice([0, 1, 1, 2, 2, 3, 3, 4, MAXPOS])
    srv = [rng.choice(BEH if rng.random() < 0.7 else ["bad", "refuse", "refuse", "K"]) for _ in range(n)]
    tag = b"case-%d-" % i
    kind = rng.choice(["short", "short", "nul", "big", "empty", "lines"])
    if kind == "short":
        body = b"Subject: t\n\nhello\n"
    elif kind == "nul":
        body = bytes(rng.randrange(256) for _ in range(rng.randint(1, 300)))
    elif kind == "big":
        body = bytes(rng.randrange(256) for _ in range(1000)) * rng.choice([1, 2, 70, 200])
    elif kind == "empty":
        body = b""
    else:
        body = b"".join(b"line %d, with a comma and 12:fake netstring,\n" % k for k in range(rng.randint(1, 60)))
    msg = tag + body
    sender = rng.choice([b"", b"s@origin.test", b"a" * 300 + b"@long.test", b"s,with:chars@x.test"])
    rcpts = [rng.choice([b"r%d@dest.test" % k, b"", b"x" * 1100 + b"@big.test", b"r,%d:@d.test" % k]) for k in range(rng.choice([1, 1, 2, 3, 40]))]
    if rng.random() < 0.05:
        rcpts = []
    return {"i": i, "env": env, "srv": srv, "msg": msg, "sender": sender, "rcpts": rcpts}


def envelope_bytes(c):
    f = b"F" + c["sender"] + b"\0"
    t = b"".join(b"T" + r + b"\0" for r in c["rcpts"])
    if c["env"] == "ok":
        return f + t + b"\0"
    if c["env"] == "nosender":
        return b"X" + c["sender"] + b"\0" + t + b"\0"
    if c["env"] == "badrcpt":
        return f + t + b"Qbad@x.test\0" + b"\0"
    if c["env"] == "cut":
        return f + t
    return b""


def run_client(tree, work, c, servers_text):
    home = os.path.join(work, "h%d" % c["i"])
    # one control directory per run: qmail-qmqpc reads control/qmqpservers below its compiled-in home, so the runs of one batch
    # share the file; batches are grouped by server list instead (see main)
    rfd, wfd = os.pipe()
    env = {"PATH": os.environ.get("PATH", "/usr/bin:/bin")}
    p = subprocess.Popen([tree.bin("qmail-qmqpc")], stdin=subprocess.PIPE, stdout=rfd, stderr=subprocess.DEVNULL, env=env, cwd=tree.root)
    os.close(rfd)

    def feed_env():
        try:
            os.write(wfd, envelope_bytes(c))
        except OSError:
            pass
        os.close(wfd)
    th = threading.Thread(target=feed_env)
    th.start()
    try:
        p.communicate(c["msg"], timeout=120)
    except subprocess.TimeoutExpired:
        p.kill()
        p.communicate()
        th.join()
        raise Infra("qmail-qmqpc did not finish within 120 s")
    th.join()
    return p.returncode


def main():
    ap = argparse.ArgumentParser()
    ap.add_argument("--tier", default=os.environ.get("VERIF_TIER", "quick"))
    ap.add_argument("--replay")
    a = ap.parse_args()
    ck = Check("X04", a.tier)
    thorough = a.tier == "thorough"
    rng = ck.rng
    mcfg = ck.scratch.path("QmqpcModel.cfg")
    with open(mcfg, "w") as f:
        f.write("SPECIFICATION Spec\nCONSTANTS\n MaxSrv = %d\nINVARIANT AsDocumented\nINVARIANT Sound\nCHECK_DEADLOCK FALSE\n" % (5 if thorough else 4))
    res = need_ok(tlc("QmqpcModel", mcfg, workers=4, timeout=900, heap="4g"), "QmqpcModel")
    ck.add_tlc("QmqpcModel(MaxSrv=%d)" % (5 if thorough else 4), res)
    if res.violated:
        ck.model_violation("QmqpcModel", res)
    scfg = ck.scratch.path("QmqpcSanity.cfg")
    with open(scfg, "w") as f:
        f.write("SPECIFICATION Spec\nCONSTANTS\n MaxSrv = 2\nINVARIANT NeverSecondServer\nCHECK_DEADLOCK FALSE\n")
    sres = need_ok(tlc("QmqpcModel", scfg, workers=2, timeout=300, heap="2g"), "QmqpcModel sanity")
    if "NeverSecondServer" not in sres.violated:
        raise Infra("sanity: QmqpcModel should violate NeverSecondServer")

    tree = build_tree(ck.scratch, split=3)
    qq = sessions.QQDir(ck.scratch.path("qq"))
    work = ck.scratch.sub("work")
    srvs = Servers(tree, qq)
    ctl = os.path.join(tree.root, "control", "qmqpservers")
    if a.replay:
        c = json.load(open(a.replay))["case"]
        for k in ("msg", "sender"):
            c[k] = c[k].encode("latin1")
        c["rcpts"] = [r.encode("latin1") for r in c["rcpts"]]
        cases = [c]
    else:
        cases = [gen_case(rng, i, thorough) for i in range(1600 if thorough else 400)]
        # round trips through the real qmail-qmqpd: behaviour "real" (a K server as far as the specification goes)
        for i in range(len(cases), len(cases) + (120 if thorough else 40)):
            c = gen_case(rng, i, thorough)
            c["env"] = "ok"
            c["srv"] = [rng.choice(["bad", "refuse"]) for _ in range(rng.randint(0, 2))] + ["real"]
            # qmail-qmqpd refuses addresses of 1000 bytes or more (that is C07's subject) and hands the others on as they are
            c["rcpts"] = [r for r in c["rcpts"] if r and len(r) < 1000] or [b"r@dest.test"]
            cases.append(c)
    # the control file is shared: group the cases by server list, run each group in parallel
    groups = {}
    for c in cases:
        groups.setdefault(tuple(c["srv"]), []).append(c)
    exits = {}
    for srv, cs in sorted(groups.items()):
        with open(ctl, "w") as f:
            f.write("".join(ip_of(pos + 1, b) + "\n" for pos, b in enumerate(srv)))
        if not srv:
            os.unlink(ctl)       # no control file at all: "runs out of addresses" at once
        rcs = sessions.pmap(lambda c: run_client(tree, work, c, None), cs)
        for c, rc in zip(cs, rcs):
            exits[c["i"]] = rc
    time.sleep(0.3)
    srvs.close()
    got_rt = qq.collect()
    bycase = {}
    with srvs.lock:
        for pos, beh, buf in srvs.got:
            m = re.search(rb"case-(\d+)-", buf)
            bycase.setdefault(int(m.group(1)) if m else -1, []).append((pos, buf))
    if -1 in bycase:
        # a request that does not carry the tag of any case: attribute it to nobody, report it
        ck.violation("wire:RequestWithoutTheMessage", "a server received %d request(s) that do not contain the message: %r" % (len(bycase[-1]), bycase[-1][0][1][:80]), None)
    rtq = {}
    for tag, lst in got_rt.items():
        for q in lst:
            m = re.search(rb"case-(\d+)-", q["msg"])
            if m:
                rtq.setdefault(int(m.group(1)), []).append((int(tag[2:]), q))
    recs = []
    for c in cases:
        n = len(c["srv"])
        got = [[] for _ in range(n)]
        for pos, buf in bycase.get(c["i"], []):
            if pos <= n:
                got[pos - 1].append(list(buf))
            else:
                got.append([list(buf)])
        srvspec = ["K" if b == "real" else b for b in c["srv"]]
        rec = {"env": "cut" if c["env"] == "empty" else c["env"], "srv": srvspec, "exit": exits[c["i"]], "got": got, "msg": list(c["msg"]), "sender": list(c["sender"]),
               "rcpts": [list(r) for r in c["rcpts"]], "rt": 0, "qmsg": [], "qsender": [], "qrcpts": [], "nq": 0}
        if "real" in c["srv"]:
            qs = rtq.get(c["i"], [])
            rec["rt"], rec["nq"] = 1, len(qs)
            # what the wire carried is not captured on this path: judged by what reached the queue behind the real server
            rec["got"] = [[] for _ in range(n)]
            if qs:
                pos, q = qs[0]
                body = q["msg"]
                if body.startswith(b"Received:"):
                    body = body.split(b"\n", 2)[2] if body.count(b"\n") >= 2 else b""
                s, rc_, complete = sessions.parse_envelope(q["env"])
                rec["qmsg"], rec["qsender"], rec["qrcpts"] = list(body), list(s or b""), [list(x) for x in rc_]
                rec["qpos"] = pos
        recs.append(rec)
    for r in recs:
        r.setdefault("qpos", 0)
    f = ck.scratch.path("x04.ndjson")
    write_ndjson(f, recs)
    bad, vres = tlc_validate_records("QmqpcRec", "QmqpcRec.cfg", f, len(recs), chunk=40, heap="8g", timeout=2400)
    ck.add_tlc("QmqpcRec", vres)
    ck.cov["traces_validated_against_impl"] = len(recs)
    ck.cov["client_runs"] = len(cases)
    ck.cov["round_trips_through_real_qmqpd"] = sum(1 for r in recs if r["rt"])
    ck.cov["runs_by_exit_status"] = {str(k): sum(1 for r in recs if r["exit"] == k) for k in sorted(set(r["exit"] for r in recs))}
    ck.cov["requests_received_by_servers"] = len(srvs.got)
    for c in cases:
        ck.count((c["env"], tuple(c["srv"]), len(c["msg"]), len(c["rcpts"]), len(c["sender"])), nontrivial=bool(c["srv"]))
    ck.sample({"servers": cases[3 % len(cases)]["srv"], "envelope": cases[3 % len(cases)]["env"], "exit": exits[cases[3 % len(cases)]["i"]]})
    best = {}
    for idx, why in bad:
        why = why.strip('"')
        c = cases[idx - 1]
        size = len(c["srv"]) * 100000 + len(c["msg"])
        if why not in best or size < best[why][0]:
            best[why] = (size, idx)
    for why, (size, idx) in sorted(best.items()):
        c, r = cases[idx - 1], recs[idx - 1]
        cj = dict(c, msg=c["msg"].decode("latin1"), sender=c["sender"].decode("latin1"), rcpts=[x.decode("latin1") for x in c["rcpts"]])
        ck.violation("qmqpc:%s:env=%s:srv=%s" % (why, c["env"], ",".join(c["srv"])),
                     "servers %s, envelope %s, message of %d bytes, %d recipients -> exit %d, requests received per server %s" % (c["srv"], c["env"], len(c["msg"]), len(c["rcpts"]), r["exit"], [len(g) for g in r["got"]]), cj)
    ck.cov["rule"] = "distinct (envelope class, server list, message length, recipient count, sender length); non-trivial = at least one server listed"
    ck.finish()


if __name__ == "__main__":
    main_wrapper(main)
