#!/usr/bin/env python3
"""X02 (beyond the listed properties) The activity record tells the truth (qmail-log(5)).

  model   spec/QSendLog.tla: a monitor beside QSendMon over the same events plus one `log` event per line of qmail-send's
          activity record: consecutive delivery numbers announced before the command goes to the spawner, result lines that
          say what the report said, status lines with the true counts and the limits in force, info / bounce / triple bounce /
          end lines in their documented places, nothing undocumented
  impl    seeded histories on the real qmail-send under the gate with the record written below the traced root
          (VERIF_LOG_EVENTS): K/Z/D/garbled reports, expiry, bounces and double bounces, ALRM/HUP/TERM+restart, concurrency limits
  verdict spec/QSendTrace.tla (LogStep)
Not part of MANIFEST.json (the property list is fixed); specification coverage beyond the list.
"""
import sys, os, json, argparse
sys.path.insert(0, os.path.join(os.path.dirname(os.path.abspath(__file__)), "..", "lib"))
os.environ["VERIF_LOG_EVENTS"] = "1"
from vlib import *
import histories, qsengine


def main():
    ap = argparse.ArgumentParser()
    ap.add_argument("--tier", default=os.environ.get("VERIF_TIER", "quick"))
    ap.add_argument("--replay")
    a = ap.parse_args()
    ck = Check("X02", a.tier)
    thorough = a.tier == "thorough"
    tree = build_tree(ck.scratch, split=3)
    sys.path.insert(0, os.path.dirname(os.path.abspath(__file__)))
    import c14
    hs = [histories.gen_history(ck.rng, 9500 + i, thorough, many=(i % 2 == 0)) for i in range(160 if thorough else 40)]
    hs += [c14.gen_bounce_history(ck.rng, 9800 + i, thorough) for i in range(80 if thorough else 20)]
    runs = qsengine.run_histories(ck, tree, hs)
    bad, res = qsengine.judge(ck, runs)
    ck.add_tlc("QSendTrace+QSendLog", res)
    ck.cov["traces_validated_against_impl"] = len(runs)
    kinds = {}
    for r in runs:
        for e in r["ev"]:
            if e["op"] == "log":
                kinds[e["k"]] = kinds.get(e["k"], 0) + 1
    ck.cov["log_lines_by_kind"] = kinds
    if sum(kinds.values()) < 100 or "status" not in kinds:
        raise Infra("the activity record was not captured (%s)" % kinds)
    for r in runs:
        ck.count(("hist", r["h"]["id"]), nontrivial=any(e["op"] == "log" for e in r["ev"]))
    ck.sample({"lines_by_kind": kinds})
    qsengine.report(ck, "X02", runs, bad)
    ck.cov["rule"] = "%d seeded histories (general and bounce chains) with every line of the activity record as an event" % len(runs)
    ck.finish()


if __name__ == "__main__":
    main_wrapper(main)
