#!/usr/bin/env python3
"""C15 Retries back off quadratically, expire with the queue lifetime, earliest first.

  model   spec/SchedModel.tla: the shift-and-subtract square root (same loop, fewer bits) is the floor
          square root on its whole domain; back-off strictly in the future; the array heap of prioq.c
          keeps heap order / minimum / bag for every operation sequence up to a bound
  impl    squareroot() and nextretry() of the current tree through the repository's own test seam on
          square boundaries and a seeded grid (+ the whole 2^32 domain swept in the thorough tier);
          the real prioq.c on every operation sequence of the model's domain and long random ones
  verdict spec/SchedRec.tla: TLC judges every record with the monitors of spec/Sched.tla
  (daemon-level retry histories with the virtual clock: see run_histories)
"""
import sys, os, json, argparse, itertools, subprocess
sys.path.insert(0, os.path.join(os.path.dirname(os.path.abspath(__file__)), "..", "lib"))
from vlib import *

SEND_LIBS = ("qsutil.o control.o constmap.o newfield.o prioq.o trigger.o fmtqfn.o quote.o readsubdir.o qmail.o date822fmt.o datetime.a case.a "
             "ndelay.a getln.a wait.a fd.a sig.a open.a lock.a stralloc.a substdio.a error.a str.a fs.a auto_qmail.o auto_split.o env.a").split()


def build_seams(tree):
    seam = pq = None
    try:
        without_main(tree, "qmail-send.c")
        seam = cc(os.path.join(tree.src, "sched_seam"), [os.path.join(HARNESS, "sched_seam.c")], cflags=["-I" + tree.src, "-w"],
                  libs=[os.path.join(tree.src, l) for l in SEND_LIBS] + ["-lm"])
    except Infra as e:
        log("C15: qmail-send seam unavailable: %s" % str(e)[:400])
    try:
        pq = cc(os.path.join(tree.src, "prioq_seam"), [os.path.join(HARNESS, "prioq_seam.c")], cflags=["-I" + tree.src, "-w"],
                libs=[os.path.join(tree.src, l) for l in ("prioq.o", "error.a")])
    except Infra as e:
        log("C15: prioq seam unavailable: %s" % str(e)[:400])
    return seam, pq


def timing_histories(rng, thorough):
    """strict histories (the clock moves only at quiescence with nothing in flight) probing each computed retry time from just
    before and just after, across TERM/restart, under ALRM, with queue lifetimes from 0 upwards, and with several due messages"""
    hs = []
    n = 0

    def mk(kind, msgs, outcomes, script, **kw):
        nonlocal n
        n += 1
        h = {"id": "t%s%d" % (kind, n), "seed": rng.randrange(1 << 30), "messages": msgs, "outcomes": outcomes, "script": script, "strict": 1,
             "conc": (10, 20), "announce": (120, 120), "drain_rounds": 50}
        h.update(kw)
        hs.append(h)

    def msg(i, k, rc):
        return {"body": b"Subject: t\n\nbody\n", "sender": b"ts%d@origin.test" % i, "rcpts": rc}
    reps = 3 if thorough else 1
    for rep in range(reps):
        for nz in (1, 2, 3, 5):
            i = len(hs)
            rc = [b"t%dl@local.test" % i, b"t%dr@remote.test" % i]
            oc = {rc[0].decode(): "Z" * nz + "K", rc[1].decode(): "Z" * max(1, nz - 1) + rng.choice("KD"), "ts%d@origin.test" % i: "K"}
            probe = []
            for _ in range(2 * nz + 1):
                probe += [("nextdue", -1), ("nextdue", 0), ("answer", "fifo")]
            mk("A", [msg(i, 0, rc)], oc, [("inject", 0), ("answer", "fifo")] + probe)
            # the same across a clean restart between the failure and the retry, and with ALRM
            mk("R", [msg(i, 0, rc)], dict(oc), [("inject", 0), ("answer", "fifo"), ("termrestart",), ("nextdue", -1), ("nextdue", 0), ("answer", "fifo"), ("termrestart",)] + probe)
            mk("S", [msg(i, 0, rc)], dict(oc), [("inject", 0), ("answer", "fifo"), ("advance", 7), ("signal", "ALRM"), ("answer", "fifo"), ("signal", "ALRM"), ("answer", "lifo")] + probe[:6])
            # ALRM with only ONE channel holding deferred messages (the other channel's retry queue never used, or used and drained):
            # everything deferred is due at once all the same
            if nz in (1, 3):
                for v, dom in enumerate((b"local.test", b"remote.test")):
                    i = len(hs)
                    a = b"t%du@%s" % (i, dom)
                    mk("U", [msg(i, 0, [a])], {a.decode(): "Z" * nz + "K", "ts%d@origin.test" % i: "K"},
                       [("inject", 0), ("answer", "fifo"), ("advance", 7), ("signal", "ALRM"), ("answer", "fifo"), ("signal", "ALRM"), ("answer", "lifo")] + probe[:6])
                    i = len(hs)
                    other = b"t%dv0@%s" % (i, (b"remote.test", b"local.test")[v])
                    a = b"t%dv1@%s" % (i, dom)
                    mk("V", [msg(i, 0, [other]), msg(i, 1, [a])], {other.decode(): "K", a.decode(): "Z" * nz + "K", "ts%d@origin.test" % i: "K"},
                       [("inject", 0), ("answer", "fifo"), ("inject", 1), ("answer", "fifo"), ("advance", 5), ("signal", "ALRM"), ("answer", "fifo"), ("advance", 3), ("signal", "ALRM"), ("answer", "fifo")] + probe[:6])
        for life in (0, 1, 100, 399, 400, 401, 3000):
            i = len(hs)
            rc = [b"t%dl@local.test" % i, b"t%dr@remote.test" % i]
            oc = {rc[0].decode(): "Z" * 30, rc[1].decode(): "Z" * 30, "ts%d@origin.test" % i: "K"}
            probe = []
            for _ in range(8):
                probe += [("nextdue", -1), ("nextdue", 0), ("answer", "fifo")]
            mk("L", [msg(i, 0, rc)], oc, [("inject", 0), ("answer", "fifo")] + probe, lifetime=life)
        # several due messages on a channel with one slot: served earliest-due first after a long sleep of the clock
        for v in range(2):
            i = len(hs)
            ms, oc, sc = [], {}, []
            for k in range(3):
                a = b"t%dm%d@local.test" % (i, k)
                ms.append(msg(i, k, [a]))
                oc[a.decode()] = "ZZK"
                sc += [("inject", k), ("answer", "fifo"), ("advance", rng.choice([3, 17, 40]))]
            oc["ts%d@origin.test" % i] = "K"
            sc += [("advance", 5000), ("answer", "fifo"), ("answer", "fifo"), ("answer", "fifo"), ("advance", 20000), ("answer", "fifo"), ("answer", "fifo"), ("answer", "fifo")]
            mk("O", ms, oc, sc, conc=(1, 1))
        # an expired message, then a young one (it takes over the job slot of the expired one): its temporary failure stays temporary
        for v in range(2):
            i = len(hs)
            dom = b"local.test" if v == 0 else b"remote.test"
            a1, a2 = b"t%dold@%s" % (i, dom), b"t%dyoung@%s" % (i, dom)
            oc = {a1.decode(): "Z" * 30, a2.decode(): "ZZK", "ts%d@origin.test" % i: "K"}
            sc = [("inject", 0), ("answer", "fifo"), ("advance", 450)]
            for _ in range(4):
                sc += [("nextdue", 0), ("answer", "fifo")]
            sc += [("inject", 1), ("answer", "fifo")]
            for _ in range(4):
                sc += [("nextdue", 0), ("answer", "fifo")]
            mk("Y", [msg(i, 0, [a1]), msg(i, 1, [a2])], oc, sc, lifetime=400)
        # several messages deferred at staggered times on one channel, then every computed wake-up is taken in turn: the daemon
        # must sleep until the EARLIEST due time (its select time-out comes from the minimum of the retry queue) and serve that one
        for v in range(2):
            i = len(hs)
            nm = 3 + v
            ms, oc, sc = [], {}, []
            for k in range(nm):
                a = b"t%dq%d@%s" % (i, k, b"local.test" if v == 0 else b"remote.test")
                ms.append(msg(i, k, [a]))
                oc[a.decode()] = "ZZZK"
                sc += [("inject", k), ("answer", "fifo"), ("advance", [3, 6, 9, 14][k])]
            oc["ts%d@origin.test" % i] = "K"
            for _ in range(4 * nm):
                sc += [("nextdue", 0), ("answer", "fifo")]
            mk("M", ms, oc, sc)
        # one channel saturated (every slot busy, so its pass over the last message stays open) while a deferred message waits on
        # the other channel: the daemon's sleep must still end at that retry time (nothing else will wake it)
        for v in range(2):
            i = len(hs)
            busy, other = (b"local.test", b"remote.test") if v == 0 else (b"remote.test", b"local.test")
            w = b"t%dw@%s" % (i, other)
            ms, oc = [msg(i, 0, [w])], {w.decode(): "ZZK", "ts%d@origin.test" % i: "K"}
            sc = [("inject", 0), ("answer", "fifo"), ("advance", 5)]
            for k in (1, 2):
                a = b"t%db%d@%s" % (i, k, busy)
                ms.append(msg(i, k, [a]))
                oc[a.decode()] = "K"
                sc += [("inject", k)]
            sc += [("answer", "fifo"), ("nextdue", 0), ("answer", "fifo"), ("nextdue", 0), ("answer", "fifo")]
            mk("P", ms, oc, sc, conc=(2, 20) if v == 0 else (10, 2))
    return hs


def main():
    ap = argparse.ArgumentParser()
    ap.add_argument("--tier", default=os.environ.get("VERIF_TIER", "quick"))
    ap.add_argument("--replay")
    a = ap.parse_args()
    ck = Check("C15", a.tier)
    thorough = a.tier == "thorough"
    bits, maxops, maxkey = (8, 8, 3) if thorough else (6, 7, 3)

    cfg = ck.scratch.path("SchedModel.cfg")
    with open(cfg, "w") as f:
        f.write("SPECIFICATION Spec\nCONSTANTS\n Bits = %d\n MaxOps = %d\n MaxKey = %d\nINVARIANTS SqrtCorrect RetryInFuture HeapOrdered MinIsMin BagPreserved\n" % (bits, maxops, maxkey))
    res = need_ok(tlc("SchedModel", cfg, workers=NCPU, timeout=1500, heap="8g"), "SchedModel")
    ck.add_tlc("SchedModel(Bits=%d,MaxOps=%d)" % (bits, maxops), res)
    if res.violated:
        ck.model_violation("SchedModel", res)

    tree = build_tree(ck.scratch, split=3)
    seam, pq = build_seams(tree)
    recs = []
    if seam:
        out = ck.scratch.path("grid.ndjson")
        r = run([seam, out, "grid", str(ck.seed), str(40000 if thorough else 12000)], timeout=600)
        if r.returncode != 0:
            raise Infra("sched seam failed: %s" % r.stdout.decode(errors="replace")[-500:])
        recs += [json.loads(l) for l in open(out)]
        # the whole 2^32 domain against the post-condition (thorough), a 2^27 slice per run in quick
        span = 2 ** 32 if thorough else 2 ** 27
        base = 0 if thorough else (ck.seed * 2 ** 27) % (2 ** 32 - 2 ** 27)
        parts = 16
        procs = []
        for i in range(parts):
            lo, hi = base + span * i // parts, base + span * (i + 1) // parts
            o = ck.scratch.path("sweep%d.json" % i)
            procs.append((subprocess.Popen([seam, o, "sweep", str(lo), str(hi)]), o))
        swept = 0
        for p, o in procs:
            if p.wait() != 0:
                raise Infra("sweep failed")
            s = json.load(open(o))
            swept += s["hi"] - s["lo"]
            if s["bad"]:
                x = s["first"]
                ck.violation("SquareRootWrong:x=%d" % x, "squareroot(%d) violates y^2 <= x < (y+1)^2 (%d failures in [%d,%d))" % (x, s["bad"], s["lo"], s["hi"]), {"x": x})
        ck.cov["sqrt_domain_swept"] = swept
        ck.cov["sqrt_sweep_exhaustive_2_32"] = bool(thorough)
    if pq:
        seqs = []
        alphabet = list(range(maxkey + 1)) + [-1]
        for n in range(0, maxops + 1):
            for s in itertools.product(alphabet, repeat=n):
                seqs.append(s)
        rng = ck.rng
        for _ in range(120 if thorough else 40):
            n = rng.choice([20, 101, 130, 260 if thorough else 110])       # beyond the 100-element allocation step
            seqs.append(tuple(rng.choice([-1, -1, rng.randrange(50), rng.randrange(50), rng.randrange(1000000)]) for _ in range(n)))
        out = ck.scratch.path("pq.ndjson")
        r = run([pq, out], input=("\n".join(" ".join(map(str, s)) for s in seqs) + "\n").encode(), timeout=600)
        if r.returncode != 0:
            raise Infra("prioq seam failed")
        recs += [json.loads(l) for l in open(out)]
    # ---- daemon level: retry histories on the real qmail-send with the virtual clock (clauses prefixed C15 of QSendMon)
    import histories, qsengine
    hs = timing_histories(ck.rng, thorough)
    runs = qsengine.run_histories(ck, tree, hs)
    tbad, tres = qsengine.judge(ck, runs)
    ck.add_tlc("QSendTrace", tres)
    ck.cov["daemon_retry_histories"] = len(runs)
    ck.cov["delivery_attempts_timed"] = sum(1 for r in runs for e in r["ev"] if e["op"] == "delcmd")
    for r in runs:
        ck.count("hist" + str(r["h"]["id"]), nontrivial=True)
    ck.sample({"history": runs[0]["h"]["id"], "attempt_times": [(e["t"] - 100000000, e["n"], e["a"]) for e in runs[0]["ev"] if e["op"] == "delcmd"][:12]})
    # in these histories every report is an honest K / Z / D: a recipient finished or bounced after a temporary failure that is
    # not past the lifetime is a violation of the lifetime clause of this property
    qsengine.report(ck, "C15", runs, tbad, accept=("C15", "C03:RecipientMarkedDoneWithoutSuccessOrFailureReport", "C14:BounceRecordWithoutPermanentFailure"))
    if not recs:
        log("C15: no function-level seam available: daemon-level histories only")
        ck.cov["traces_validated_against_impl"] = len(runs)
        ck.finish()

    recfile = ck.scratch.path("c15.ndjson")
    full = {"kind": "", "x": 0, "y": 0, "birth": 0, "now": 0, "c": 0, "res": 0, "n": 0, "ops": [], "mins": [], "drain": []}
    write_ndjson(recfile, [dict(full, **r) for r in recs])
    bad, vres = tlc_validate_records("SchedRec", "SchedRec.cfg", recfile, len(recs), chunk=2000, heap="8g")
    ck.add_tlc("SchedRec", vres)
    ck.cov["traces_validated_against_impl"] = len(recs)
    for r in recs:
        ck.count(json.dumps(r, sort_keys=True), nontrivial=True)
    kinds = {}
    for r in recs:
        kinds.setdefault(r["kind"], []).append(r)
    for kd, rs in kinds.items():
        ck.cov["records_" + kd] = len(rs)
        ck.sample(rs[len(rs) // 2] if len(json.dumps(rs[len(rs) // 2])) < 400 else rs[3])
    best = {}
    for idx, why in bad:
        r = recs[idx - 1]
        why = why.strip('"')
        if why not in best or len(json.dumps(r)) < len(json.dumps(best[why])):
            best[why] = r
    for why, r in sorted(best.items()):
        key = "%s:%s" % (why, json.dumps({k: v for k, v in r.items() if k != "kind"}, sort_keys=True).replace(" ", "")[:80])
        ck.violation(key, "record %s" % json.dumps(r)[:200], r)
    ck.cov["rule"] = ("squareroot on every k^2-1,k^2,k^2+1 (k sampled up to 46000) and a seeded random grid below 2^31, nextretry on a seeded (birth, now, channel) grid "
                      "incl. clock-behind-birth, prioq on every operation sequence up to length %d over keys 0..%d plus random sequences of 20..260 operations (past the 100-element allocation step); "
                      "the post-condition is also swept in C over %s; distinct by record" % (maxops, maxkey, "all 2^32 ages" if thorough else "a 2^27 slice"))
    ck.assumptions += ["TLC integers are 32 bit: records carry ages and results below 2^31; ages up to 2^32-1 are covered by the C sweep against the same post-condition"]
    ck.finish()


if __name__ == "__main__":
    main_wrapper(main)
