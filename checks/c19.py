#!/usr/bin/env python3
"""C19 The POP3 server shows the maildir faithfully and deletes only on request.

  model   spec/Pop3.tla      (E) reference model of RFC 1939 as qualified by qmail-pop3d(8), qmail-popup(8),
                                 maildir(5): Step / AfterVerdict / SessionVerdict / RootVerdict / PopupVerdict
          spec/Pop3Impl.tla  (P) transcriptions of scan_ulong, msgno, pop3_top, blast, prioq, getlist
          spec/Pop3Blast.tla (P) blast() line by line x every message over {LF,CR,'.','x'} up to MaxLen x RETR / TOP 0..3
          spec/Pop3d.tla     (P) the server's command handlers x every command sequence (any length) over
                                 verbs x argument texts x maildir populations x files vanishing x QUIT / dropped connection,
                                 reference model in lock step (invariant Conforms)
          spec/Pop3Popup.tla (P) qmail-popup x every command sequence x checker exit 0 / non-zero / crash
  impl    the real qmail-pop3d (as an unprivileged uid; a few times as root) on generated maildirs, driven command
          by command: enumerated sequences over a core command set, every verb x argument class, seeded random
          longer sessions with files removed behind the server's back; the real qmail-popup with a stand-in
          checker (harness/standin_checkpw.c) that records descriptor 3 and exits as scripted
  verdict TLC evaluates the reference model on every recorded session (spec/Pop3Rec.tla)
"""
import sys, os, json, argparse, re, threading, itertools
sys.path.insert(0, os.path.join(os.path.dirname(os.path.abspath(__file__)), "..", "lib"))
from vlib import *
import sessions
import c19_util as U

# Witnesses of a genuine defect of the unchanged tree that has been reported and is awaiting a decision
# (fix in /repo or known_findings.txt).  Regexes on witness keys; matching violations are printed as
# PENDING-FINDING and do not fail the run.  Everything else still does.
#   scan_ulong() has no overflow test: a message number or TOP line count >= 2^64 wraps around, so
#   "DELE 18446744073709551617" is accepted as DELE 1 (out-of-range number not refused, message destroyed at QUIT)
#   and "TOP 1 18446744073709551616" sends no body line at all.
PENDING_FINDINGS = [
    # (empty) the scan_ulong wrap-around found while building this check (DELE 2^64+1 destroyed message 1, TOP n 2^64
    # sent no body) is repaired in /repo ("fix: scan_ulong: saturate ..."); the as-found transcription stays selectable
    # (ScanWraps = TRUE) and must still be rejected by the model (run "word wraps at 100" below)
]

CHECKER = os.path.join(BUILD, "standin_checkpw")
EXPECT_COV = {
    "Pop3d": ["RetrDotStuffed", "TopLimited", "DeletedAtQuit", "RenamedAtQuit", "RefusedDeleted", "VanishedRetr", "MixedQuit",
              "RsetUnmarks", "DroppedKeepsMarked"],
    "Pop3Popup": ["Login", "ApopCrash", "PassBeforeUser", "RefusedBeforeLogin"],
    "Pop3Blast": ["BlastStuffedPartialLast", "BlastTopCut", "BlastNoSeparatorAllHeader"],
}


# --------------------------------------------------------------------------------------------
# jobs
# --------------------------------------------------------------------------------------------
def core_commands(n):
    s = lambda v: str(v).encode()
    c = [(b"DELE", b"1"), (b"DELE", s(n)), (b"DELE", s(n + 1)), (b"DELE", b"0"), (b"RSET", b""), (b"LIST", b""),
         (b"UIDL", b""), (b"STAT", b""), (b"RETR", b"1"), (b"TOP", s(n) + b" 1"), (b"LIST", b"1"), (b"UIDL", s(n)),
         (b"QUIT", b""), ("XRM", 1), (b"LAST", b"")]
    out = []
    for x in c:
        if x not in out:
            out.append(x)
    return out


def pop3d_jobs(ck, thorough):
    rng = ck.rng
    t0 = U.base_mtime()
    pops = U.designed_populations(t0)
    jobs = []

    def add(files, cmds, root=0, tag=""):
        jobs.append({"files": files, "cmds": list(cmds), "root": root, "tag": tag})

    # (a) every verb x every argument text, on every designed population, followed by probes that make the
    #     effect visible (listing, then QUIT / dropped connection)
    for files in pops:
        n = len(files)
        for verb in U.VERBS:
            args = U.arg_table(n) + U.wrap_table(n) if verb in ("LIST", "UIDL", "DELE", "RETR", "TOP") else [("none", b""), ("junk", b"x")]
            for cls, a in args:
                if verb == "QUIT":
                    if a:
                        continue
                    add(files, [(verb.encode(), a), (b"LIST", b"")], tag="single")
                    continue
                add(files, [(verb.encode(), a), (b"LIST", b""), (b"QUIT", b"")], tag="single")
                if verb == "DELE":
                    add(files, [(verb.encode(), a), (b"STAT", b"")], tag="single")       # connection dropped: nothing may go
                    add(files, [(b"DELE", b"1"), (verb.encode(), a), (b"UIDL", b""), (b"QUIT", b"")], tag="single")
                if verb in ("RETR", "TOP", "LIST", "UIDL"):
                    add(files, [(b"DELE", b"1"), (verb.encode(), a), (b"QUIT", b"")], tag="single")
        for ov in U.OTHER_VERBS:
            add(files, [(ov, b""), (ov, b"1"), (b"LIST", b""), (b"QUIT", b"")], tag="other")
        # every message with RETR and TOP 0..4
        for i in range(1, n + 1):
            add(files, [(b"RETR", str(i).encode())] + [(b"TOP", b"%d %d" % (i, k)) for k in range(5)] + [(b"TOP", b"%d 1000" % i)], tag="blast")
    # (a2) lines far longer than the server's output buffer (1024) and than the library's direct-write chunk (8192): 9216 is the
    #      last length that fits one chunk plus the buffer
    longpop = U.population([("new", b"1700000900.1.long", b"h: 1\n\n" + b"a" * 9216 + b"\nafter\n"),
                            ("new", b"1700000901.2.long", b"h: 2\n\n" + b"b" * 9217 + b"\nafter\n"),
                            ("cur", b"1700000902.3.long:2,S", b"h: 3\n\n." + b"c" * 12000 + b"\nafter\n." + b"d" * 8192 + b"\n")], t0)
    for i in (1, 2, 3):
        add(longpop, [(b"RETR", str(i).encode()), (b"TOP", b"%d 1" % i), (b"LIST", b""), (b"QUIT", b"")], tag="longline")
    add(longpop, [(b"RETR", b"2"), (b"RETR", b"3"), (b"RETR", b"1"), (b"TOP", b"3 1000"), (b"QUIT", b"")], tag="longline")
    # (b) every sequence up to length L over the core command set
    L = 4 if thorough else 3
    for files in (pops[2], pops[3]) if not thorough else (pops[1], pops[2], pops[3]):
        core = core_commands(len(files))
        for ln in range(1, L + 1):
            if ln == 4 and files is pops[1]:
                continue
            if ln == 4:
                core = [c for c in core if c[0] != b"LAST" and c != (b"DELE", b"0")]
            for seq in itertools.product(core, repeat=ln):
                if any(c[0] == b"QUIT" for c in seq[:-1]):
                    continue
                seq = list(seq)
                # sequences ending in QUIT are the "... then QUIT" variants of the shorter ones; the others end by a
                # dropped connection, after a listing that shows the marks
                add(files, seq + ([(b"LIST", b"")] if seq[-1][0] not in (b"QUIT", b"LIST") else []), tag="enum")
    # (c) seeded random sessions: random populations, longer sequences, vanishing files, mixed case
    nrand = 20000 if thorough else 1500
    names = [b"1700000%03d.%d.mx.test" % (i, 500 + i) for i in range(12)]
    for r in range(nrand):
        n = rng.choice([0, 1, 2, 2, 3, 3, 4, 5, 6])
        spec = []
        for i in range(n):
            k = rng.random()
            if k < 0.6:
                x = rng.choice(U.MESSAGES[:10])
            elif k < 0.9:
                x = bytes(rng.choice([10, 10, 46, 46, 120, 13, 32, rng.randrange(256)]) for _ in range(rng.randint(0, 60)))
            else:
                x = bytes(rng.choice([10, 46, 120, 120, 120, 120, 120, rng.randrange(256)]) for _ in range(rng.randint(900, 2600)))
            d = rng.choice(["new", "cur"])
            nm = names[i] + (rng.choice([b":2,", b":2,S", b":2,FRS", b"", b":1,x"]) if d == "cur" else rng.choice([b"", b"", b"", b":2,"]))
            spec.append((d, nm, x))
        files = U.population(spec, t0)
        if n >= 2 and rng.random() < 0.1:
            files[1]["mt"] = files[0]["mt"]                      # a tie: any consistent numbering is accepted
        table = U.arg_table(n)      # numbers >= 2^64 only in the dedicated sessions of (a): see PENDING_FINDINGS
        cmds = []
        for _ in range(rng.randint(2, 12)):
            k = rng.random()
            if k < 0.08 and n:
                cmds.append(("XRM", rng.randint(1, n)))
                continue
            if k < 0.12:
                cmds.append((rng.choice(U.OTHER_VERBS + [b"Z" * 1200]), rng.choice([b"", b"1"])))
                continue
            verb = rng.choice(["DELE", "DELE", "DELE", "RETR", "RETR", "TOP", "TOP", "LIST", "LIST", "UIDL", "STAT", "RSET", "RSET", "LAST", "NOOP", "QUIT"])
            if verb in ("DELE", "RETR", "TOP", "LIST", "UIDL"):
                if rng.random() < 0.6 and n:
                    a = str(rng.randint(1, n)).encode()
                    if verb == "TOP":
                        a += b" " + str(rng.choice([0, 1, 2, 3, 7, 100])).encode()
                    elif verb in ("LIST", "UIDL") and rng.random() < 0.5:
                        a = b""
                else:
                    a = rng.choice(table)[1]
            else:
                a = b"" if verb == "QUIT" or rng.random() < 0.9 else b"x"
            vt = verb if rng.random() < 0.7 else rng.choice([verb.lower(), verb.capitalize(), verb[0].lower() + verb[1:]])
            cmds.append((vt.encode(), a))
        if rng.random() < 0.6 and not any(c[0] != "XRM" and c[0].upper() == b"QUIT" for c in cmds):
            cmds.append((b"QUIT", b""))
        add(files, cmds, tag="random")
    # (d) as root: nothing is served
    for files in pops[1:4]:
        add(files, [(b"DELE", b"1"), (b"LIST", b""), (b"QUIT", b"")], root=1, tag="root")
        add(files, [], root=1, tag="root")
        # invoked by uid 0 all the same: only the effective uid lowered (a login helper that calls seteuid / setreuid, not setuid)
        for cred in ("e", "r"):
            add(files, [(b"DELE", b"1"), (b"LIST", b""), (b"QUIT", b"")], root=1, tag="root" + cred)
            jobs[-1]["cred"] = cred
    return jobs


def popup_jobs(ck, thorough):
    rng = ck.rng
    users = [b"alice", b"bob", b"a.b-c_d+e", b"user@dom.example", b"\xe9t\xe9", b"u" * 200, b"x"]
    pws = [b"secret", b"p@ss:w0rd!<>", b"two words", b"d41d8cd98f00b204e9800998ecf8427e", b"p" * 300, b"0", b"\xff\xfe"]
    hosts = [b"pop.test.example", b"h", b"a-very-long-host-name." * 6 + b"example"]
    base = [(b"USER", users[0]), (b"USER", users[1]), (b"USER", b""), (b"PASS", pws[0]), (b"PASS", pws[2]), (b"PASS", b""),
            (b"APOP", users[0] + b" " + pws[3]), (b"APOP", users[0]), (b"APOP", b""), (b"NOOP", b""), (b"QUIT", b""),
            (b"STAT", b""), (b"LIST", b""), (b"RETR", b"1"), (b"DELE", b"1"), (b"TOP", b"1 1"), (b"UIDL", b""), (b"RSET", b""),
            (b"LAST", b""), (b"XYZZY", b""), (b"", b""), (b"APOP", users[0] + b" "), (b"APOP", users[0] + b"  " + pws[0])]
    jobs = []
    L = 3 if thorough else 2
    for ln in range(1, L + 1):
        for seq in itertools.product(base if ln < 3 else base[:1] + base[3:4] + base[5:13] + base[19:20] + base[21:22], repeat=ln):
            for ex in ((0, 1, -1) if ln < 3 else (0, 1)):
                jobs.append({"host": hosts[0], "ex": ex, "cmds": list(seq) + [(b"NOOP", b"")]})
    # every sequence of three (and four) authentication steps, refused ones included: what a refused command leaves behind
    # must not show in what the checker is given later
    auth = [(b"USER", users[0]), (b"USER", users[1]), (b"USER", b""), (b"PASS", pws[0]), (b"PASS", b""), (b"APOP", users[0]), (b"NOOP", b""), (b"XYZZY", b"")]
    for seq in itertools.product(auth, repeat=3):
        for ex in (0, 1):
            jobs.append({"host": hosts[0], "ex": ex, "cmds": list(seq) + [(b"NOOP", b"")]})
    for seq in itertools.product([auth[0], auth[2], auth[3], auth[4]], repeat=4):
        jobs.append({"host": hosts[1], "ex": 0, "cmds": list(seq) + [(b"NOOP", b"")]})
    for u in users:
        for pw in pws:
            for ex in (0, 1, 111, -1):
                jobs.append({"host": rng.choice(hosts), "ex": ex, "cmds": [(b"USER", u), (b"PASS", pw), (b"NOOP", b"")]})
            jobs.append({"host": rng.choice(hosts), "ex": rng.choice([0, 2]), "cmds": [(b"STAT", b""), (b"apop", u + b" " + pw.replace(b" ", b"_"))]})
    for _ in range(3000 if thorough else 300):
        cmds = []
        for _ in range(rng.randint(1, 8)):
            v, a = rng.choice(base)
            if v == b"USER" and rng.random() < 0.5:
                a = rng.choice(users)
            if v == b"PASS" and rng.random() < 0.5:
                a = rng.choice(pws)
            if rng.random() < 0.3:
                v = rng.choice([v.lower(), v.capitalize()])
            cmds.append((v, a))
        jobs.append({"host": rng.choice(hosts), "ex": rng.choice([0, 0, 1, 100, 111, 255, -1]), "cmds": cmds})
    return jobs


# --------------------------------------------------------------------------------------------
def job_to_json(kind, job):
    if kind == "d":
        return {"kind": "d", "root": job["root"], "cred": job.get("cred", ""),
                "files": [{"d": f["d"], "n": list(f["n"]), "x": list(f["x"]), "mt": f["mt"]} for f in job["files"]],
                "cmds": [["XRM", a] if v == "XRM" else [list(v), list(a)] for v, a in job["cmds"]]}
    return {"kind": "p", "host": list(job["host"]), "ex": job["ex"], "cmds": [[list(v), list(a)] for v, a in job["cmds"]]}


def job_from_json(j):
    if j["kind"] == "d":
        t0 = U.base_mtime()
        mts = sorted(set(f["mt"] for f in j["files"]))
        return "d", {"root": j["root"], "tag": "replay", "cred": j.get("cred", ""),
                     "files": [{"d": f["d"], "n": bytes(f["n"]), "x": bytes(f["x"]), "mt": t0 + 10 * mts.index(f["mt"])} for f in j["files"]],
                     "cmds": [("XRM", c[1]) if c[0] == "XRM" else (bytes(c[0]), bytes(c[1])) for c in j["cmds"]]}
    return "p", {"host": bytes(j["host"]), "ex": j["ex"], "cmds": [(bytes(v), bytes(a)) for v, a in j["cmds"]]}


def cmd_text(job, step):
    """Witness text for the failing command of a job."""
    if step == 0 or step > len(job["cmds"]):
        seq = job["cmds"]
        return "after:" + ",".join("XRM%d" % a if v == "XRM" else (U.show(v.upper()) + ("_" + U.show(a) if a else "")) for v, a in seq[:8])
    v, a = job["cmds"][step - 1]
    if v == "XRM":
        return "XRM%d" % a
    return U.show(v.upper()) + "_" + U.show(a)[:60] + (":wrap64" if U.has_wrap(a) else "")


def main():
    ap = argparse.ArgumentParser()
    ap.add_argument("--tier", default=os.environ.get("VERIF_TIER", "quick"))
    ap.add_argument("--replay")
    a = ap.parse_args()
    ck = Check("C19", a.tier)
    thorough = a.tier == "thorough"

    # ---- models (run in the background while the tree is built and the sessions run)
    blast_len = 8 if thorough else 6
    cfgb = ck.scratch.path("Pop3Blast.cfg")
    with open(cfgb, "w") as f:
        f.write("SPECIFICATION Spec\nCONSTANTS\n Alphabet = {10, 13, 46, 120}\n MaxLen = %d\n MaxTop = 3\n WordMod = 0\n ScanWraps = FALSE\n"
                "INVARIANT BlastAgrees\nINVARIANT BlastPrefix\nINVARIANT Framed\nINVARIANT Witnessed\n" % blast_len)
    cfgw = ck.scratch.path("Pop3dWrap.cfg")
    with open(cfgw, "w") as f:
        f.write("SPECIFICATION Spec\nCONSTANTS\n WordMod = 100\n ScanWraps = TRUE\nINVARIANT Conforms\n")
    cfgc = ck.scratch.path("Pop3dCov.cfg")
    models = {}

    def run_model(name, module, cfg, **kw):
        # an own metadir per run: the default name is per process and millisecond, these runs start together
        models[name] = tlc(module, cfg, timeout=1500, heap="4g",
                           metadir=ck.scratch.path("tlcmeta-" + re.sub(r"\W", "_", name)), **kw)

    plan = [("Pop3Blast(MaxLen=%d)" % blast_len, "Pop3Blast", cfgb, {"workers": 6}),
            ("Pop3d", "Pop3d", "Pop3d.cfg", {"workers": 8}),
            ("Pop3Popup", "Pop3Popup", "Pop3Popup.cfg", {"workers": 2}),
            ("Pop3d(word wraps at 100)", "Pop3d", cfgw, {"workers": 2})]
    # ---- real code
    tree = build_tree(ck.scratch, queue=False, targets=("qmail-pop3d", "qmail-popup"))
    pop3d, popup = tree.bin("qmail-pop3d"), tree.bin("qmail-popup")
    if not os.path.exists(CHECKER):
        raise Infra("stand-in checker %s not built (run setup.sh)" % CHECKER)
    work = ck.scratch.sub("w")
    os.chmod(ck.scratch.dir, 0o755)
    os.chmod(work, 0o755)

    if a.replay:
        kind, job = job_from_json(json.load(open(a.replay))["case"])
        djobs, pjobs = ([job], []) if kind == "d" else ([], [job])
    else:
        djobs, pjobs = pop3d_jobs(ck, thorough), popup_jobs(ck, thorough)
    # every worker process gives up after two sessions that hang (a broken server must not cost 5 s x thousands)
    breaker = U.Breaker(limit=2)
    alljobs = [("d", i, j) for i, j in enumerate(djobs)] + [("p", len(djobs) + i, j) for i, j in enumerate(pjobs)]

    def one_with(item, brk, timeout):
        kind, idx, job = item
        if kind == "d":
            return U.run_pop3d(pop3d, work, idx, job, brk, timeout)
        return U.run_popup(popup, CHECKER, work, idx, job, brk, timeout)

    def one(item):
        return one_with(item, breaker, 5.0)

    # worker processes are forked before any thread exists; then the models run in threads beside the sessions
    pool = U.ForkPool(one, NCPU)
    threads = []
    if not a.replay:
        for name, module, cfg, kw in plan:
            t = threading.Thread(target=run_model, args=(name, module, cfg), kwargs=kw)
            t.start()
            threads.append(t)
    t1 = time.time()
    try:
        results = pool.map(alljobs)
    except BaseException:
        pool.abort()
        raise
    pool.close()
    log("C19: %d sessions in %.1fs" % (len(alljobs), time.time() - t1))
    done = [(it, r) for it, r in zip(alljobs, results) if r is not None]
    # a session that timed out may be the machine, not the server: run such sessions again with a long timeout
    # (a few first; all of them if that shows the time-outs were not reproducible)
    hung = [k for k, (it, r) in enumerate(done) if r.get("hung")]
    if hung:
        quiet = U.Breaker(limit=10 ** 9)
        again = sessions.pmap(lambda k: one_with(done[k][0], quiet, 20.0), hung[:4])
        if any(not r["hung"] for r in again):
            again += sessions.pmap(lambda k: one_with(done[k][0], quiet, 20.0), hung[4:])
        for k, r in zip(hung, again):
            done[k] = (done[k][0], r)
    if not done:
        raise Infra("no session could be run")
    nhung = sum(1 for _, r in done if r.get("hung"))
    if len(done) < len(alljobs):
        log("C19: %d sessions hung; %d of %d sessions were run before giving up" % (nhung, len(done), len(alljobs)))
    # sanity of the harness itself: the first designed sessions must have been served
    served = sum(1 for (it, r) in done if r["k"] == "d" and r["root"] == 0 and r["greet"] == "ok")
    if served == 0 and len(done) == len(alljobs) and any(it[0] == "d" and not it[2]["root"] for it, _ in done):
        # every session failed before the greeting: more likely the sandbox (uid switch, permissions) than the server;
        # a server that never greets is still reported by TLC below (NoGreeting)
        log("C19: no session got a greeting")

    recs = [r for _, r in done]
    keep = ("k", "files", "mt", "cmds", "reps", "after", "root", "greet", "rc", "tail", "host", "greetc", "invs", "ex")
    # validated in batches: TLC holds a whole record file in memory (every byte a value object)
    bad, B, t2 = [], 7000, time.time()
    for b0 in range(0, len(recs), B):
        recfile = ck.scratch.path("c19-%d.ndjson" % b0)
        part = recs[b0:b0 + B]
        write_ndjson(recfile, [{k: r[k] for k in keep if k in r} for r in part])
        pbad, vres = tlc_validate_records("Pop3Rec", "Pop3Rec.cfg", recfile, len(part), chunk=100, timeout=1800, heap="6g")
        os.unlink(recfile)
        bad += [(b0 + i, why) for i, why in pbad]
        ck.add_tlc("Pop3Rec[%d..%d]" % (b0 + 1, b0 + len(part)), vres)
    log("C19: validation %.1fs" % (time.time() - t2))
    ck.cov["traces_validated_against_impl"] = len(recs)

    # ---- models' results
    for t in threads:
        t.join()
    for name, module, cfg, kw in plan if not a.replay else []:
        res = need_ok(models[name], name)
        ck.add_tlc(name, res)
        if "wraps" in name:
            # expected: the model with a finite machine word exhibits the reported defect (scan_ulong wrap-around)
            ck.cov["model_with_wrapping_word_violates"] = res.violated
            continue
        if res.violated:
            ck.model_violation(name, res)
        # non-vacuity: every interesting branch of the model was reached (witness lines printed by invariant Witnessed)
        seen = set(re.findall(r'"COV (\w+)"', "\n".join(res.prints)))
        missing = set(EXPECT_COV[module]) - seen
        if missing:
            raise Infra("model %s never reaches: %s" % (name, sorted(missing)))
        ck.cov.setdefault("model_branches_witnessed", {})[module] = sorted(seen)
    if not a.replay:
        if models["Pop3d"].distinct < 1000 or models[plan[0][0]].distinct < 1000:
            raise Infra("model state space unexpectedly small")

    # ---- evidence
    ntags = {}
    for (kind, idx, job), r in done:
        if kind == "d":
            verbs = [c["v"] for c in r["cmds"]]
            nontriv = any(v in ("DELE", "RETR", "TOP", "XRM") for v in verbs) or r["root"] == 1
            key = ("d", json.dumps(r["files"]), json.dumps(r["cmds"]), r["root"])
            ntags[job.get("tag", "")] = ntags.get(job.get("tag", ""), 0) + 1
        else:
            nontriv = any(i for i in r["invs"]) or any(c["v"] not in U.POPUP_VERBS for c in r["cmds"])
            key = ("p", r["host"], json.dumps(r["cmds"]), r["ex"])
            ntags["popup"] = ntags.get("popup", 0) + 1
        ck.count(key, nontrivial=nontriv)
    ck.cov["sessions_by_kind"] = ntags
    ck.cov["sessions_hung"] = nhung
    ck.cov["sessions_not_run_after_hangs"] = len(alljobs) - len(done)
    picks, want = [], ["single", "enum", "random", "root", "popup", "popup"]
    for (kind, idx, job), r in done:
        tag = job.get("tag", "popup") if kind == "d" else "popup"
        good = (kind == "d" and (r["root"] or (any(c["v"] == "DELE" for c in r["cmds"]) and r["files"] and r["cmds"][-1]["v"] == "QUIT"))) or \
               (kind == "p" and any(i for i in r["invs"]))
        if tag in want and good:
            want.remove(tag)
            picks.append(((kind, idx, job), r))
    for (kind, idx, job), r in (picks or done[:2]):
        if kind == "d":
            ck.sample({"maildir": ["%s/%s (%d bytes)" % (f["d"], bytes(f["n"]).decode("latin-1"), len(f["x"])) for f in r["files"]],
                       "commands": ["XRM %d" % c["a"][0] if c["v"] == "XRM" else (c["v"] + " " + bytes(c["a"]).decode("latin-1")).strip() for c in r["cmds"]],
                       "replies": ["%s t=%r payload=%d bytes" % (p["c"], bytes(p["t"]).decode("latin-1"), len(p["b"])) for p in r["reps"]],
                       "after": ["%s/%s" % (f["d"], bytes(f["n"]).decode("latin-1")) for f in r["after"]], "root": r["root"]})
        else:
            ck.sample({"popup_commands": [(c["v"] + " " + bytes(c["a"]).decode("latin-1")).strip()[:60] for c in r["cmds"]],
                       "replies": [p["c"] for p in r["reps"]], "checker_exit": r["ex"],
                       "descriptor3": [bytes(i[0]).decode("latin-1")[:80] if i else "" for i in r["invs"]]})
    ck.cov["rule"] = ("real qmail-pop3d sessions driven command by command: every verb x %d argument texts (none, 0, 1, n, n+1, huge, junk, "
                      "digit-prefixed junk, pairs, >= 2^64) on 5 designed maildirs with probe commands; every sequence up to length %d over a "
                      "%d-command core set on %d maildirs, ended by QUIT and by a dropped connection; %d seeded random sessions (0-6 messages in "
                      "new/ and cur/, binary and >1024-byte messages, files removed between commands, mixed-case verbs); as root; real qmail-popup "
                      "with a recording stand-in checker: every sequence up to length %d over 23 commands x checker exit 0 / 1 / crash, user x "
                      "password table, random sessions.  distinct = distinct (maildir, command sequence); non-trivial = contains DELE / RETR / TOP / "
                      "a vanishing file, or (popup) reaches the checker or sends a verb that must be refused"
                      % (len(U.arg_table(2)) + len(U.wrap_table(2)), 4 if thorough else 3, 15, 3 if thorough else 2,
                         ntags.get("random", 0), 3 if thorough else 2))
    ck.cov["exhaustive"] = True
    ck.assumptions += [
        "the server runs as uid %d on a maildir owned by that uid; the sandbox's own uid 0 is used only for the root-refusal sessions" % U.UID,
        "message files have modification times in the past (maildir_scan skips files whose mtime is not before now) and distinct unique names",
        "numbering: any bijection between message numbers and the files present at start-up that explains the whole session is accepted (the "
        "statement does not fix the order); mtime order is what the model's transcription produces (invariant NumberingIsMtimeOrder)",
        "STAT: the count is outside the comparison, the size must be the sum of the file sizes of the unmarked messages (RFC 1939 section 5)",
        "LAST's value, QUIT's reply class after a marked file vanished, commands with digit-prefixed junk or surplus arguments: every reading accepted (Pop3.tla D6/D7)",
        "stand-in checker records descriptor 3 faithfully; reply wording is never compared",
    ]

    # ---- verdicts
    best = {}
    for idx, why in bad:
        (kind, jidx, job), r = done[idx - 1]
        m = re.match(r'"(\w+)"(?:, (\d+))?', why)
        clause, step = (m.group(1), int(m.group(2) or 0)) if m else (why.strip('"'), 0)
        key = "%s:%s" % (clause, cmd_text(job, step))
        if key not in best or len(job["cmds"]) < len(best[key][0]["cmds"]):
            best[key] = (job, r, kind, step)
    pending = []
    nviol = 0
    for key, (job, r, kind, step) in sorted(best.items(), key=lambda kv: (len(kv[1][0]["cmds"]), kv[0])):
        if any(re.fullmatch(p, key) for p in PENDING_FINDINGS):
            pending.append(key)
            continue
        nviol += 1
        if nviol > 12:
            continue
        if kind == "d":
            cmds = ["XRM %d" % c["a"][0] if c["v"] == "XRM" else (c["v"] + " " + bytes(c["a"]).decode("latin-1")).strip() for c in r["cmds"]]
            desc = ("maildir %s; commands %s; replies %s; afterwards %s; failing command #%d" %
                    (["%s/%s:%dB" % (f["d"], bytes(f["n"]).decode("latin-1"), len(f["x"])) for f in r["files"]], cmds[:10],
                     ["%s/%s/%dB" % (p["c"], bytes(p["t"][:20]).decode("latin-1"), len(p["b"])) for p in r["reps"]][:10],
                     ["%s/%s" % (f["d"], bytes(f["n"]).decode("latin-1")) for f in r["after"]], step))
        else:
            desc = ("popup commands %s; replies %s; checker exit %s; descriptor 3 %r; failing command #%d" %
                    ([(c["v"] + " " + bytes(c["a"]).decode("latin-1")).strip()[:40] for c in r["cmds"]][:10], [p["c"] for p in r["reps"]][:10],
                     r["ex"], [bytes(i[0])[:60] if i else b"" for i in r["invs"]][:10], step))
        ck.violation(key, desc, job_to_json(kind, job))
    ck.cov["pending_findings"] = sorted(pending)[:40]
    ck.cov["pending_findings_count"] = len(pending)
    for key in sorted(pending)[:6]:
        print("PENDING-FINDING property=C19 %s (scan_ulong wrap-around, reported; see PENDING_FINDINGS in checks/c19.py)" % key)
    ck.finish()


if __name__ == "__main__":
    main_wrapper(main)
