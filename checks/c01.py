#!/usr/bin/env python3
"""C01 Queue acceptance is all-or-nothing and durable.

  model   spec/QQ.tla (P: qmail-queue, one action per system call, with Fail/Kill/Crash) over envelope
          variants; invariants Atomic, SuccessMeansQueued, Refusals, StateTable
  impl    the real qmail-queue under the shim on every generated (message, envelope): a clean run, then
          one run per (intercepted call, applicable failure kind) and a sample of real kills
  verdict spec/QQTrace.tla: TLC replays every recorded run through the environment layer (spec/FS.tla)
          and evaluates the C01 monitors (spec/QueueMon.tla) in every state and every crash/data-loss
          successor of every prefix; the final real directory listing is compared with the model state
"""
import sys, os, json, argparse
sys.path.insert(0, os.path.join(os.path.dirname(os.path.abspath(__file__)), "..", "lib"))
from vlib import *
import sandbox, qqrun

MODEL_ENVS = {"ok2": '<<"F","T","T","0">>', "ok0": '<<"F","0">>', "badT": '<<"F","X","0">>', "badF": '<<"X","T","0">>',
              "long": '<<"F","T","L","0">>', "eof": '<<"F","T">>', "eof0": '<<>>'}


def run_model(ck, thorough):
    mc = ck.scratch.sub("qqmc")
    import shutil
    shutil.copy(os.path.join(SPEC, "QQ.tla"), mc)
    total = 0
    for name, env in MODEL_ENVS.items():
        for msg in (['<<>>', '<<"m1","m2","m3">>'] + (['<<"m1","m2","m3","m4","m5">>'] if thorough else [])):
            mod = "QQMC"
            with open(os.path.join(mc, mod + ".tla"), "w") as f:
                f.write("---- MODULE %s ----\nEXTENDS QQ\nM == %s\nE == %s\n====\n" % (mod, msg, env))
            with open(os.path.join(mc, mod + ".cfg"), "w") as f:
                f.write("SPECIFICATION Spec\nINVARIANTS Atomic SuccessMeansQueued Refusals StateTable\nCONSTANTS Inodes = {1, 2}\nMSG <- M\nENVIN <- E\n"
                        "FsyncMess = TRUE\nFsyncIntd = TRUE\nLinkAfterFsync = TRUE\n")
            res = need_ok(tlc(mod, mod + ".cfg", cwd=mc, workers=4, timeout=600), "QQ model %s" % name)
            ck.add_tlc("QQ(env=%s,msg=%s)" % (name, msg.count("m")), res)
            if res.violated:
                ck.model_violation("QQ/" + name, res)
    # non-vacuity of the model: each of the three classic mutations must violate Atomic
    for sw in ("FsyncMess = FALSE\nFsyncIntd = TRUE\nLinkAfterFsync = TRUE", "FsyncMess = TRUE\nFsyncIntd = FALSE\nLinkAfterFsync = TRUE",
               "FsyncMess = TRUE\nFsyncIntd = TRUE\nLinkAfterFsync = FALSE"):
        with open(os.path.join(mc, "QQMC.tla"), "w") as f:
            f.write('---- MODULE QQMC ----\nEXTENDS QQ\nM == <<"m1","m2","m3">>\nE == <<"F","T","T","0">>\n====\n')
        with open(os.path.join(mc, "QQMC.cfg"), "w") as f:
            f.write("SPECIFICATION Spec\nINVARIANTS Atomic\nCONSTANTS Inodes = {1, 2}\nMSG <- M\nENVIN <- E\n" + sw + "\n")
        res = tlc("QQMC", "QQMC.cfg", cwd=mc, workers=2, timeout=300)
        if "Atomic" not in res.violated:
            raise Infra("model sanity: mutation (%s) does not violate Atomic" % sw.replace("\n", ", "))
    ck.cov["model_mutations_detected"] = 3


def main():
    ap = argparse.ArgumentParser()
    ap.add_argument("--tier", default=os.environ.get("VERIF_TIER", "quick"))
    ap.add_argument("--replay")
    a = ap.parse_args()
    ck = Check("C01", a.tier)
    thorough = a.tier == "thorough"
    run_model(ck, thorough)

    tree = build_tree(ck.scratch, split=3)
    ids = sandbox.write_ids(ck.scratch.path("ids"), tree.root)
    qdir = os.path.join(tree.root, "queue")
    work = ck.scratch.sub("work")
    cases = qqrun.gen_cases(ck.rng, thorough)
    runs = []

    def record(case, res, fault, kill):
        name, inp, sender, rcpts, env, defect = case
        rn = qqrun.Renum()
        evs = qqrun.fs_events(res["trace"], qdir, rn)
        # conformance of the abstraction: the real directory listing at the end, in the same projection
        listing = sandbox.list_queue(tree.root)
        obs = sorted([d, rn(n) if d != "pid" else 0, v["size"]] for (d, n), v in listing.items())
        eofcut = defect == "eof"
        runs.append({"case": name, "ev": [{k: v for k, v in e.items() if k != "k"} for e in evs], "input": list(inp), "sender": list(sender),
                     "rcpts": [list(x) for x in rcpts], "defect": defect, "exit": res["exit"], "fault": 1 if (fault or kill) else 0,
                     "obs": obs, "faultdesc": str(fault or kill or "")})
        ck.count((name, fault, kill), nontrivial=True)

    if a.replay:
        rc = json.load(open(a.replay))["case"]
        cases = [c for c in cases if c[0] == rc["case"]]
    big = 0
    nalrm = 0
    for case in cases:
        res = qqrun.run_qq(tree, ids, work, case)
        record(case, res, None, None)
        if a.replay:
            continue
        # every intercepted call of the clean run x applicable failure kinds
        calls = [(e["k"], e["c"], e) for e in res["trace"] if e["c"] in qqrun.FAULT_KINDS and e.get("k")]
        if len(case[1]) > 3000:
            big += 1
        for k, c, e in calls:
            kinds = qqrun.FAULT_KINDS[c]
            if not thorough:
                kinds = kinds[:1] + ([kinds[-1]] if c == "write" else [])
            if len(case[1]) > 1000 and not thorough:
                kinds = kinds[:1]
            for kind in kinds:
                if kind == "short1":
                    what = "short1"
                elif kind == "shorthalf":
                    what = "short%d" % max(1, e.get("len", 2) // 2)
                else:
                    what = str(kind)
                fres = qqrun.run_qq(tree, ids, work, case, fault=(k, what))
                record(case, fres, (k, what), None)
        # real kills: the process dies before its k-th call (sampled in quick)
        ks = [k for k, _, _ in calls]
        if not thorough:
            ks = ks[:: max(1, len(ks) // 4)]
        for k in ks:
            kres = qqrun.run_qq(tree, ids, work, case, kill=k)
            record(case, kres, None, k)
        # the program's own 24-hour timer expiring before its k-th call (SIGALRM: its handler runs): every k for the first
        # cases, sampled for the rest
        nalrm += 1
        for k in ([k for k, _, _ in calls] if (thorough or nalrm <= 4) else ks):
            ares = qqrun.run_qq(tree, ids, work, case, kill=k, sig=14)
            record(case, ares, None, "alrm%d" % k)

    recfile = ck.scratch.path("c01.ndjson")
    write_ndjson(recfile, [{k: v for k, v in r.items() if k not in ("case", "faultdesc")} for r in runs])
    bad, vres = tlc_validate_records("QQTrace", "QQTrace.cfg", recfile, len(runs), workers=NCPU, timeout=1500, heap="12g")
    ck.add_tlc("QQTrace", vres)
    ck.cov["traces_validated_against_impl"] = len(runs)
    ck.cov["crash_closure_states"] = vres.distinct
    for r in runs[:: max(1, len(runs) // 5)][:5]:
        ck.sample({"case": r["case"], "fault_or_kill": r["faultdesc"], "exit": r["exit"],
                   "events": [(e["op"], e["d"] or e["ino"], len(e["b"]) or "") for e in r["ev"]][:14], "final_listing": r["obs"]})
    ck.cov["rule"] = ("%d (message, envelope) cases (sizes around the 256/2048-byte buffers, 0..n recipients, 1001..1004-byte addresses, wrong letters, EOF at "
                      "envelope offsets); for each: clean run, one run per (intercepted call x failure kind), real kills before calls; TLC adds every "
                      "crash/data-loss successor of every prefix; distinct by (case, fault site+kind | kill point)" % len(cases))
    ck.assumptions += ["directory operations synchronous, fsync makes data durable (conf-qmail)", "the shim sees every file-system call of qmail-queue"]
    mism = [runs[i - 1] for i, w in bad if "ABSTRACTION-MISMATCH" in w]
    if mism:
        raise Infra("the recorded file-system events do not explain the real directory listing in %d runs (e.g. case %s fault %s): "
                    "the program uses a call the shim does not model" % (len(mism), mism[0]["case"], mism[0]["faultdesc"]))
    seen = set()
    for idx, why in bad:
        r = runs[idx - 1]
        why = why.strip('"')
        key = "%s:case=%s:fault=%s" % (why, r["case"], r["faultdesc"].replace(" ", ""))
        gen = "%s:%s" % (why, r["case"])
        if gen in seen:
            continue
        seen.add(gen)
        ck.violation(key, "run %s (fault/kill %s) exit %s" % (r["case"], r["faultdesc"] or "none", r["exit"]), {"case": r["case"], "fault": r["faultdesc"]})
    # ---- "exactly the given message behind its own Received line": the content of that line (who invoked it, which process, when -
    # spec/Origin.tla over the calendar of spec/Datetime.tla) and of the envelope file, under a virtual clock that includes the last
    # days of February, leap days, year ends; the same records as ./check X05
    sys.path.insert(0, os.path.dirname(os.path.abspath(__file__)))
    import x05
    U = sandbox.USERS
    uids = [U["alias"], U["qmaild"], U["qmails"], 0, 1000, 2 ** 31 - 1]
    clocks = [951782400 - 1, 951782400, 951782400 + 43200, 951868799, 951868800, 1835395200 + 3600, 1835395200 + 86399, 1835481600, 1961625600 + 5, 68169599, 68169600, 68256000,
              978307199, 978307200, 4107542399 % (2 ** 31), 0, 86399, 2 ** 31 - 2]
    orecs = []
    for i, clock in enumerate(clocks + [ck.rng.randrange(0, 2 ** 31 - 1) for _ in range(60 if thorough else 14)]):
        orecs.append(x05.one_run(tree, ids, work, i, uids[i % len(uids)], clock, [b"Subject: t\n\nbody\n", b"", b"Received: (qmail 1 invoked by alias); 1 Jan 1970 00:00:00 -0000\n\nx\n"][i % 3],
                                 [b"s@origin.test", b""][i % 2], [b"r%d@dest.test" % k for k in range(i % 3)]))
    of = ck.scratch.path("origin.ndjson")
    write_ndjson(of, orecs)
    obad, ores = tlc_validate_records("OriginRec", "OriginRec.cfg", of, len(orecs), chunk=10, heap="4g", timeout=900)
    ck.add_tlc("OriginRec", ores)
    ck.cov["received_line_and_envelope_head_runs"] = len(orecs)
    ck.cov["traces_validated_against_impl"] += len(orecs)
    oseen = set()
    for idx, why in obad:
        why = why.strip('"')
        if why in oseen:
            continue
        oseen.add(why)
        r = orecs[idx - 1]
        ck.violation("origin:%s:uid=%d:clock=%d" % (why, r["uid"], r["day"] * 86400 + r["tod"]), "invoked by uid %d as process %d at %d: stored %r..., envelope file %r..."
                     % (r["uid"], r["pid"], r["day"] * 86400 + r["tod"], bytes(r["mess"])[:90], bytes(r["envf"])[:50]), r)
    ck.finish()


if __name__ == "__main__":
    main_wrapper(main)
