#!/usr/bin/env python3
"""C04 Finished recipients are never retried; at most one attempt in flight.

Same engine, models and histories as checks/c03.py (one engine, two monitor sets: the clauses prefixed C04 of
spec/QSendMon.tla - FinishedRecipientAttemptedAgain, TwoAttemptsInFlightForOneRecipient, ConcurrencyLimitExceeded,
DeliveryNumberInUse, RecipientDeliveredTwiceWithoutCrash), with histories biased towards many recipients, small
concurrency settings 0..n and small announced spawner limits, and the same crash points (attempts started after
the restart versus marks written before the crash, with marks lost only where the crash model drops them).
"""
import sys, os
sys.path.insert(0, os.path.dirname(os.path.abspath(__file__)))
sys.argv += ["--prop", "C04"]
import c03
from vlib import main_wrapper
main_wrapper(c03.main)
