#!/usr/bin/env python3
"""C18 Helpers at trust boundaries act only on validated requests.

 part 1 (cleaner): spec/Helpers.tla (monitor CleanVerdict, transcription CleanP), spec/CleanModel.tla
         (every request of a bounded domain); the real qmail-clean under the shim (every unlink path and
         every status byte recorded), requests separated by a sentinel request so that every event is
         attributed to exactly one request; records judged by TLC (spec/CleanRec.tla)
 part 2 (spawner): the real qmail-lspawn / qmail-rspawn with scripted stand-ins, command streams judged by spec/SpawnRec.tla
 part 3 (queue manager report channels): histories on the real qmail-send under the gate in which hostile byte streams arrive
         on the report channels while deliveries are in flight (numbers out of range / unused / of the other channel, letters
         that are not K Z D, reports far beyond the size limit, frames split over writes, NUL runs, bursts, random bytes); the
         stream is cut into frames by lib/repframe.py (lexing only) and spec/QSendMon.tla judges what follows: no recipient
         marked, bounced, dropped or left waiting without an honest report, no crash, truncated text in the notice
"""
import sys, os, json, argparse, re, subprocess
sys.path.insert(0, os.path.join(os.path.dirname(os.path.abspath(__file__)), "..", "lib"))
from vlib import *
import sandbox

SENT = b"foop/999999\0"
SPLIT = 3


def clean_requests(rng, thorough):
    heads = [b"foop/", b"todo/", b"foop.", b"todo.", b"todox", b"fooq/", b"FOOP/", b"info/", b"mess/", b"../..", b"/////",
             b"foop0", b"tod/1", b"pid//", b"intd/", b"TODO/"]
    tail_alpha = [b"1", b"2", b"0", b"/", b".", b"x", b"\x80"]
    tails = [b""]
    level = [b""]
    for _ in range(4 if thorough else 3):
        level = [t + a for t in level for a in tail_alpha]
        tails += level
    reqs = []
    for h in heads:
        for t in tails:
            reqs.append(h + t + b"\0")
    # short requests, free form
    short_alpha = [b"f", b"o", b"p", b"t", b"d", b"/", b".", b"1", b"x"]
    level = [b""]
    for _ in range(4):
        level = [t + a for t in level for a in short_alpha]
        if len(level) < 1200:
            reqs += [t + b"\0" for t in level]
        else:
            reqs += [t + b"\0" for t in rng.sample(level, 600)]
    reqs.append(b"\0")
    # boundary lengths (100 / 101), leading zeros, numbers around 2^31, 2^32, 2^63, 2^64, very long digit strings
    for kw in (b"foop/", b"todo/"):
        for nd in (1, 2, 9, 10, 19, 20, 21, 93, 94, 95, 96, 200, 5000):
            reqs.append(kw + b"1" * nd + b"\0")
            reqs.append(kw + b"0" * (nd - 1) + b"7\0")
        for v in (0, 1, 7, 12, 2**31 - 1, 2**31, 2**32 - 1, 2**32, 2**32 + 1, 2**63 - 1, 2**63, 2**64 - 1, 2**64, 2**64 + 1, 10**25 + 12):
            reqs.append(kw + str(v).encode() + b"\0")
        # numbers that only an overflowing conversion could take for the number of a message that exists (12, 21, 33): multiples of
        # 2^64 added, and digit strings that run through the last value before the overflow (1844674407370955161) with one more digit
        for t in (12, 21, 33):
            for k in (1, 2, 3, 10):
                reqs.append(kw + str(k * 2**64 + t).encode() + b"\0")
            reqs.append(kw + b"18446744073709551616" + str(t).encode() + b"\0")
            reqs.append(kw + b"1844674407370955161" + str(6 + int(str(t)[0])).encode() + str(t)[1:].encode() + b"\0")
            reqs.append(kw + b"1844674407370955161" + str(6 + int(str(t)[0])).encode() + str(t)[1:].encode() + b"000\0")
        for d in range(10):
            reqs.append(kw + b"1844674407370955161" + str(d).encode() + b"\0")
            reqs.append(kw + b"1844674407370955160" + str(d).encode() + b"\0")
        reqs.append(kw + b"12x\0"); reqs.append(kw + b"x12\0"); reqs.append(kw + b"1x2\0"); reqs.append(kw + b"12 \0")
        reqs.append(kw + b"-12\0"); reqs.append(kw + b"+12\0"); reqs.append(kw + b"12/../../x\0"); reqs.append(kw + b"../12\0")
    for _ in range(400 if thorough else 150):
        ln = rng.randint(1, 130)
        body = bytes(rng.choice(b"0123456789/.footdpx\x80\xff ") for _ in range(ln))
        if rng.random() < 0.5:
            body = rng.choice([b"foop/", b"todo/"]) + body
        reqs.append(body.replace(b"\0", b"1") + b"\0")
    reqs = [r for r in reqs if b"999999" not in r]
    # requests for files that exist (see populate): 12 (all three files), 21 (intd/21 is a directory -> '!')
    reqs += [b"todo/12\0", b"foop/12\0", b"foop/21\0", b"todo/0012\0"]
    return reqs


def populate(root):
    q = os.path.join(root, "queue")
    for p in ("intd/12", "mess/0/12", "todo/12", "mess/0/21", "intd/33", "todo/33", "mess/0/33", "info/0/12"):
        with open(os.path.join(q, p), "wb") as f:
            f.write(b"x")
    os.mkdir(os.path.join(q, "intd/21"))


def parse_path(p, qdir):
    rel = os.path.relpath(p, qdir) if p.startswith("/") else p
    m = re.fullmatch(r"(intd|todo)/(\d+)", rel)
    if m:
        return {"d": m.group(1), "s": [], "n": [ord(c) for c in m.group(2)]}
    m = re.fullmatch(r"mess/(\d+)/(\d+)", rel)
    if m:
        return {"d": "mess", "s": [ord(c) for c in m.group(1)], "n": [ord(c) for c in m.group(2)]}
    return {"d": "other", "s": [], "n": [], "raw": rel}


def run_clean(ck, tree, reqs):
    ids = sandbox.write_ids(ck.scratch.path("ids"), tree.root)
    trace = ck.scratch.path("clean.trace")
    if os.path.exists(trace):
        os.unlink(trace)
    env = sandbox.shim_env(tree, ids=ids, trace=trace, role="clean")
    stream = b"".join(r + SENT for r in reqs)
    p = subprocess.run([tree.bin("qmail-clean")], input=stream, stdout=subprocess.PIPE, stderr=subprocess.PIPE, env=env, timeout=300)
    qdir = os.path.join(tree.root, "queue")
    recs = []
    cur = {"st": [], "unl": []}
    state = "test"          # test | sentinel
    sent = {"st": [], "unl": []}
    idx = 0
    for e in sandbox.read_trace(trace):
        if e["c"] == "unlink":
            pp = parse_path(e["path"], qdir)
            pp["ok"] = bool(e["res"] == 0 or e["e"] == 2)
            if pp["d"] == "other" and pp.get("raw", "").startswith("pid/"):
                continue        # ageing of pid/ files is not request serving (and none is old here)
            if state == "test" and pp["d"] == "intd" and pp["n"] == [ord(c) for c in "999999"]:
                if idx < len(reqs):
                    recs.append({"req": list(reqs[idx]), "st": cur["st"], "unl": cur["unl"]})
                idx += 1
                cur = {"st": [], "unl": []}
                state = "sentinel"
                sent = {"st": [], "unl": [pp]}
                continue
            (sent if state == "sentinel" else cur)["unl"].append(pp)
        elif e["c"] == "write" and e.get("fd") == 1 and e["res"] > 0:
            b = list(bytes.fromhex(e["hex"]))
            if state == "sentinel":
                sent["st"] += b
                recs.append({"req": list(SENT), "st": sent["st"], "unl": sent["unl"], "sentinel": 1})
                state = "test"
            else:
                cur["st"] += b
    if cur["st"] or cur["unl"]:
        recs.append({"req": list(reqs[idx]) if idx < len(reqs) else [0], "st": cur["st"], "unl": cur["unl"], "trailing": 1})
    nreq = len([r for r in recs if not r.get("sentinel")])
    if nreq != len(reqs):
        # the helper stopped early or lost synchronisation: every request must still be accounted for
        for j in range(nreq, len(reqs)):
            recs.append({"req": list(reqs[j]), "st": [], "unl": []})
    return recs, p.returncode, len(p.stdout)


MIDS = [b"1/4", b"1//4", b"1/4/", b"1/7", b"2/5", b"0/9", b"4", b"1", b"/etc/passwd", b"1/../1/4", b"../mess/1/4", b"1/4x", b"x1/4",
        b"", b"1/4 ", b".", b"1/.4", b"01/4", b"1/04", b"1/4\x80", b"-1/4", b"1\\4", b"1/" + b"0" * 96 + b"4", b"1/" + b"0" * 97 + b"4",
        b"1/" + b"0" * 98 + b"4", b"9" * 99, b"9" * 100, b"9" * 101, b"1/4/../4", b"//1/4", b"1/4/.", b"~/x", b"1/4\n", b"0/../../../control/me"]


def populate_spawn(root):
    q = os.path.join(root, "queue", "mess")
    quid = sandbox.USERS["qmailq"]
    with open(os.path.join(q, "1", "4"), "wb") as f:
        f.write(b"Subject: x\n\nbody\n")
    os.chown(os.path.join(q, "1", "4"), quid, 0)
    with open(os.path.join(q, "1", "7"), "wb") as f:
        f.write(b"foreign\n")
    os.chown(os.path.join(q, "1", "7"), 4242, 0)
    os.makedirs(os.path.join(q, "2", "5"), exist_ok=True)
    os.chown(os.path.join(q, "2", "5"), quid, 0)
    long_ok = os.path.join(q, "1", "0" * 96 + "4")
    with open(long_ok, "wb") as f:
        f.write(b"long name\n")
    os.chown(long_ok, quid, 0)


def mid_kind(root, mid):
    import stat as st_
    if not mid or not (48 <= mid[0] <= 57) or any(not (48 <= b <= 57 or b == 47) for b in mid):
        return "none"
    p = os.path.join(root.encode(), b"queue", b"mess", mid)
    try:
        st = os.stat(p)
    except OSError:
        return "absent"
    if st_.S_ISREG(st.st_mode):
        return "regq" if st.st_uid == sandbox.USERS["qmailq"] else "regother"
    return "dir"


def run_spawner(ck, tree, thorough):
    import spawnrun
    populate_spawn(tree.root)
    ids = sandbox.write_ids(ck.scratch.path("ids2"), tree.root)
    rng = ck.rng
    recs = []
    hung_sessions = []
    nsess = 60 if thorough else 24
    for sidx in range(nsess):
        n = rng.randint(1, 40)
        dns = rng.sample(range(256), n) if sidx % 3 else rng.sample(range(120), n)
        cmds, stream = [], b""
        for i, dn in enumerate(dns):
            mid = MIDS[(sidx * 7 + i) % len(MIDS)] if rng.random() < 0.7 else rng.choice(MIDS[:6])
            rcp = ("c%d@h.test" % i).encode() if rng.random() < 0.93 else ("c%d" % i).encode()
            sender = rng.choice([b"s@x.test", b"", b"a" * 2000, b"s\xff@y"])
            stream += spawnrun.mkcmd(dn, mid, sender, rcp)
            cmds.append({"dn": dn, "mid": list(mid), "rcp": list(rcp), "kind": mid_kind(tree.root, mid)})
        if sidx % 4 == 0:     # truncated final command: never completed, so never a command
            stream += spawnrun.mkcmd(rng.randrange(120), b"1/4", b"s@x", b"trunc@h.test")[: rng.randint(1, 12)]
        r = spawnrun.run_rspawn(tree, ck.scratch.sub("spawn"), stream, {}, ids, timeout=20 if hung_sessions else 60)
        if r["hung"] and hung_sessions:
            ck.cov["spawner_sessions_skipped_after_a_confirmed_hang"] = ck.cov.get("spawner_sessions_skipped_after_a_confirmed_hang", 0) + 1
            continue
        if r["hung"]:
            # a spawner that is still there a minute after the end of its commands: run the session again with twice the time; if
            # it repeats, what it did answer is judged like any other session (commands without a report are verdicts) - only
            # a spawner that answered everything and merely failed to leave is reported as infrastructure
            log("C18: qmail-rspawn did not finish session %d within 60 s; running it again" % sidx)
            r = spawnrun.run_rspawn(tree, ck.scratch.sub("spawn"), stream, {}, ids, timeout=120)
            if r["hung"] and len(r["reports"]) >= len(dns):
                raise Infra("qmail-rspawn hung (twice) although it had answered every command")
            hung_sessions.append(sidx)
        ranset = {x["rcpt"] for x in r["ran"]}
        for x in r["ran"]:
            if x["rcpt"] == b"trunc@h.test":
                ck.violation("spawn:AgentStartedForTruncatedCommand", "delivery started for a command that was never completed", {"stream": list(stream[-40:])})
        rec = {"kind": "cmds", "cmds": cmds, "limit": r["limit"] if r["limit"] is not None else 0,
               "reports": [dn for dn, _, _ in r["reports"]], "opens": [list(o.encode("latin1")) for o in r["opens"]],
               "ran": [1 if bytes(c["rcp"]) in ranset else 0 for c in cmds], "stream": list(stream)}
        recs.append(rec)
        ck.count(("spawn", sidx, tuple(dns)), nontrivial=True)
    return recs


def run_lspawn_relay(ck, tree, thorough):
    """the real qmail-lspawn with a stand-in delivery program that prints arbitrary bytes (NULs, forged report frames) and ends
    with any exit status or signal: what arrives on the channel to the queue manager, cut into frames"""
    import shutil, subprocess, repframe
    sys.path.insert(0, os.path.join(os.path.dirname(os.path.abspath(__file__)), "..", "lib"))
    import c11_util
    ids = sandbox.write_ids(ck.scratch.path("lids"), tree.root)
    real = os.path.join(tree.root, "bin", "qmail-local")
    keep = real + ".real"
    if not os.path.exists(keep):
        os.rename(real, keep)
    shutil.copy(c11_util.STANDIN_LOCAL, real)
    os.chmod(real, 0o755)
    home = os.path.join(tree.root, "alias")
    os.makedirs(home, exist_ok=True)
    os.chown(home, sandbox.USERS["alias"], sandbox.GROUPS["nofiles"])
    os.chmod(home, 0o755)
    q = os.path.join(tree.root, "queue", "mess", "0")
    os.makedirs(q, exist_ok=True)
    with open(os.path.join(q, "1234"), "wb") as f:
        f.write(b"Subject: x\n\nbody\n")
    os.chown(os.path.join(q, "1234"), sandbox.USERS["qmailq"], sandbox.GROUPS["qmail"])
    os.chmod(os.path.join(q, "1234"), 0o644)
    recd, scd = ck.scratch.sub("lrec"), ck.scratch.sub("lscript")
    os.chmod(recd, 0o777)
    os.chmod(scd, 0o755)
    outs = [b"", b"ok\n", b"text without newline", b"\0", b"\0\0", b"a\0b", b"ok\0\0Kdone\0", b"ok\0\x02Kdone\0", b"ok\0\x01Kagain\0", b"\0\x02K\0", b"x\0\x02Dforged\0y",
            b"\x02Kstart\0", b"K\0K\0K\0", b"line\n\0\x07Zz\0\0\0", bytes(range(1, 256)), b"long " * 3000, b"e\0" * 50, b"\xff\0\xffK\0"]
    ends = ["exit 0", "exit 100", "exit 111", "exit 1", "exit 99", "exit 112", "exit 255", "signal 9", "signal 11"]
    cases = [(o, e) for o in outs for e in (ends if thorough else ends[:4] + ends[7:8])]
    recs = []
    lhung = []
    for ci, (o, e) in enumerate(cases):
        with open(os.path.join(scd, "hostile"), "wb") as f:
            f.write(e.encode() + b"\n" + o)
        with open(os.path.join(scd, "plain"), "wb") as f:
            f.write(b"exit 111\nmailbox busy\n")
        env = sandbox.shim_env(tree, ids=ids, extra={"VERIF_LOCAL_DIR": recd, "VERIF_LOCAL_SCRIPT_DIR": scd})
        inp = b"".join(bytes([dn]) + b"0/1234\0s@s.test\0" + l + b"@local.test\0" for dn, l in ((1, b"hostile"), (2, b"plain")))
        out = None
        for tmo in ((20,) if lhung else (60, 120)):
            p = subprocess.Popen([tree.bin("qmail-lspawn"), "./Mailbox"], stdin=subprocess.PIPE, stdout=subprocess.PIPE, stderr=subprocess.PIPE, env=env, cwd=tree.root)
            try:
                out, err = p.communicate(inp, timeout=tmo)
                break
            except subprocess.TimeoutExpired:
                # still there long after the end of its commands: once more with twice the time, then what it did send is judged
                p.kill()
                out, err = p.communicate()
                hung = True
        else:
            if lhung:
                ck.cov["lspawn_runs_skipped_after_a_confirmed_hang"] = ck.cov.get("lspawn_runs_skipped_after_a_confirmed_hang", 0) + 1
                continue
            lhung.append(ci)
            log("C18: qmail-lspawn did not finish run %d within 60 s and again within 120 s; judging what it sent" % ci)
        if len(out) < 1:
            raise Infra("qmail-lspawn wrote nothing: %r" % err[:300])
        if c11_util.MARK_FAIL in out:
            raise Infra("the stand-in qmail-local failed: %r" % out[:200])
        frames = repframe.Framer().feed(0, out[1:])
        ex, cr = (int(e.split()[1]), 0) if e.startswith("exit") else (0, 1)
        recs.append({"kind": "lrun", "lcmds": [1, 2], "lexp": [[ex, cr], [111, 0]], "lframes": [[fr[0], fr[1] if len(fr) > 1 else 0] for fr in frames],
                     "cmds": [], "limit": 0, "reports": [], "opens": [], "ran": [], "ex": 0, "cr": 0, "out": [], "relayed": 0,
                     "desc": "%r / %s" % (o[:40], e), "raw": out[:200].hex()})
        for n in os.listdir(recd):
            os.unlink(os.path.join(recd, n))
    os.unlink(real)
    os.rename(keep, real)
    return recs


HOSTILE_KINDS = ["range", "unused", "wrongchan", "mangled", "oversized", "oversizedjunk", "split", "nuls", "burst", "random"]


def report_histories(rng, thorough):
    """messages with recipients on both channels; while deliveries are in flight, hostile byte streams arrive on the report
    channels; afterwards everything still in flight is answered honestly and the queue is drained"""
    hs = []
    reps = 25 if thorough else 1
    idx = 0
    for rep in range(reps):
        for kind in HOSTILE_KINDS + ["mix", "mix", "mix"]:
            idx += 1
            nmsg = rng.choice([1, 2])
            messages, outcomes = [], {}
            for m in range(nmsg):
                rc = []
                for k in range(rng.choice([2, 3, 4])):
                    a = "h%dm%dr%d@%s" % (idx, m, k, rng.choice(["local.test", "remote.test"]))
                    rc.append(a.encode())
                    outcomes[a] = rng.choice(["K", "D", "ZK", "ZD", "K", "D"])
                messages.append({"body": b"Subject: h%d\n\nbody\n" % idx, "sender": b"hs%d@origin.test" % idx, "rcpts": rc})
            outcomes["hs%d@origin.test" % idx] = "K"
            script = [("inject", m) for m in range(nmsg)]
            kinds = [kind] * rng.choice([1, 2, 3]) if kind != "mix" else [rng.choice(HOSTILE_KINDS) for _ in range(rng.randint(3, 6))]
            for k in kinds:
                script.append(("hostile", k))
                if rng.random() < 0.3:
                    script.append(("answer", rng.choice(["fifo", "lifo", "random"])))
            script += [("answer", "fifo"), ("nextdue", 0), ("hostile", rng.choice(HOSTILE_KINDS)), ("answer", "fifo"), ("nextdue", 0), ("answer", "fifo")]
            hs.append({"id": "rep-%s-%d" % (kind, idx), "seed": rng.randrange(1 << 30), "messages": messages, "outcomes": outcomes, "script": script,
                       "strict": 1, "conc": rng.choice([(10, 20), (3, 3), (2, 5)]), "announce": (120, 120), "hostile": 1, "drain_rounds": 60})
    return hs


def main():
    ap = argparse.ArgumentParser()
    ap.add_argument("--tier", default=os.environ.get("VERIF_TIER", "quick"))
    ap.add_argument("--replay")
    a = ap.parse_args()
    ck = Check("C18", a.tier)
    thorough = a.tier == "thorough"

    cfg = ck.scratch.path("CleanModel.cfg")
    with open(cfg, "w") as f:
        f.write("SPECIFICATION Spec\nCONSTANTS\n MaxLen = %d\n Split = 3\nINVARIANT Sound\n" % (10 if thorough else 9))
    res = need_ok(tlc("CleanModel", cfg, workers=NCPU, timeout=1200, heap="6g"), "CleanModel")
    ck.add_tlc("CleanModel", res)
    if res.violated:
        ck.model_violation("CleanModel", res)

    tree = build_tree(ck.scratch, split=SPLIT)
    populate(tree.root)
    if a.replay:
        case = json.load(open(a.replay))["case"]
        reqs = [bytes(case["req"])]
    else:
        reqs = clean_requests(ck.rng, thorough)
    recs, rc, nout = run_clean(ck, tree, reqs)
    for r in recs:
        ck.count(tuple(r["req"]), nontrivial=not r.get("sentinel"))
    left = sandbox.list_queue(tree.root)
    # files of numbers no request named must still be there (33), files named by served requests gone (12)
    if not a.replay:
        for k in (("intd", "33"), ("todo", "33"), ("mess", "33"), ("info", "12")):
            if k not in left:
                ck.violation("ForeignFileRemoved:%s/%s" % k, "file %s/%s disappeared although no request named it" % k, {"req": []})
        for k in (("intd", "12"), ("todo", "12"), ("mess", "12")):
            if k in left:
                ck.violation("NamedFileNotRemoved:%s/%s" % k, "file %s/%s still present after a served request" % k, {"req": list(b"foop/12\0")})

    recfile = ck.scratch.path("clean.ndjson")
    write_ndjson(recfile, [{"req": r["req"], "st": r["st"], "unl": [{"d": u["d"], "s": u["s"], "n": u["n"], "ok": u["ok"]} for u in r["unl"]]} for r in recs])
    bad, vres = tlc_validate_records("CleanRec", "CleanRec.cfg", recfile, len(recs), chunk=400, env={"SPLIT": str(SPLIT)})
    ck.add_tlc("CleanRec", vres)
    ck.cov["traces_validated_against_impl"] = len(recs)
    ck.cov["clean_requests"] = len(reqs)
    for r in recs[:2000:331]:
        ck.sample({"request": bytes(r["req"]).decode("latin1"), "status": bytes(r["st"]).decode("latin1"),
                   "unlinked": ["%s/%s%s" % (u["d"], (bytes(u["s"]).decode() + "/") if u["s"] else "", bytes(u["n"]).decode()) for u in r["unl"]]})
    best = {}
    for idx, why in bad:
        r = recs[idx - 1]
        why = why.strip('"')
        if why not in best or len(r["req"]) < len(best[why]["req"]):
            best[why] = r
    for why, r in sorted(best.items()):
        key = "clean:%s:req=%s" % (why, bytes(r["req"]).decode("latin1").replace("\0", "\\0").replace(" ", "_")[:40])
        ck.violation(key, "request %r answered %r, unlinked %s" % (bytes(r["req"])[:40], bytes(r["st"]), [u.get("raw") or (u["d"], bytes(u["n"]).decode()) for u in r["unl"]][:6]), r)

    # ---- part 2: the spawner
    if not a.replay:
        srecs = run_spawner(ck, tree, thorough)
        sfile = ck.scratch.path("spawn.ndjson")
        write_ndjson(sfile, [{k: v for k, v in r.items() if k != "stream"} for r in srecs])
        sbad, sres = tlc_validate_records("SpawnRec", "SpawnRec.cfg", sfile, len(srecs), chunk=4)
        ck.add_tlc("SpawnRec", sres)
        ck.cov["traces_validated_against_impl"] += len(srecs)
        ck.cov["spawner_command_streams"] = len(srecs)
        ck.cov["spawner_commands"] = sum(len(r["cmds"]) for r in srecs)
        # the local spawner relaying what the delivery program printed
        lrecs = run_lspawn_relay(ck, tree, thorough)
        lfile = ck.scratch.path("lrun.ndjson")
        write_ndjson(lfile, [{k: v for k, v in r.items() if k not in ("desc", "raw")} for r in lrecs])
        lbad, lres = tlc_validate_records("SpawnRec", "SpawnRec.cfg", lfile, len(lrecs), chunk=10)
        ck.add_tlc("SpawnRec(lspawn relay)", lres)
        ck.cov["traces_validated_against_impl"] += len(lrecs)
        ck.cov["lspawn_relay_runs"] = len(lrecs)
        for r in lrecs:
            ck.count(("lrun", r["desc"]), nontrivial=True)
        ck.sample({"lspawn_program_output_and_end": lrecs[6]["desc"], "frames": lrecs[6]["lframes"]})
        seenl = set()
        for idx, why in lbad:
            r = lrecs[idx - 1]
            why = why.strip('"')
            if why in seenl:
                continue
            seenl.add(why)
            ck.violation("lspawn:%s:%s" % (why, r["desc"].replace(" ", "_")[:60]), "delivery program %s -> frames %s (channel bytes %s)" % (r["desc"], r["lframes"], r["raw"][:80]), r)
        ck.sample({"spawner_commands": [(c["dn"], bytes(c["mid"]).decode("latin1"), c["kind"]) for c in srecs[0]["cmds"][:6]],
                   "reports": srecs[0]["reports"][:6], "opened": [bytes(o).decode("latin1") for o in srecs[0]["opens"][:6]]})
        for idx, why in sbad:
            r = srecs[idx - 1]
            why = why.strip('"')
            ck.violation("spawn:%s" % why, "command stream of %d commands: reports %s opens %s ran %s" % (
                len(r["cmds"]), r["reports"][:10], [bytes(o).decode("latin1") for o in r["opens"]][:10], r["ran"][:10]), r)

    # ---- part 3: arbitrary bytes on the queue manager's report channels
    if not a.replay or "history" in json.load(open(a.replay))["case"]:
        import histories, qsengine
        if a.replay:
            hs = [qsengine.history_from_replay(json.load(open(a.replay))["case"]["history"])]
        else:
            hs = report_histories(ck.rng, thorough)
        runs = qsengine.run_histories(ck, tree, hs)
        tbad, tres = qsengine.judge(ck, runs)
        ck.add_tlc("QSendTrace(report channels)", tres)
        ck.cov["traces_validated_against_impl"] += len(runs)
        ck.cov["report_channel_histories"] = len(runs)
        ck.cov["hostile_frames"] = sum(1 for r in runs for e in r["ev"] if e["op"] == "report")
        for r in runs:
            ck.count(("hist", r["h"]["id"]), nontrivial=True)
        ck.sample({"history": runs[0]["h"]["id"], "script": [list(x) for x in runs[0]["h"]["script"]][:12],
                   "reports": [(e["c"], e["d"], e["k"], e["extra"]) for e in runs[0]["ev"] if e["op"] == "report"][:12]})
        # in these histories the only unusual input is what arrives on the report channels: every objection about the state of a
        # recipient or a bounce, a crash of the daemon, and mail that never leaves the queue although every delivery was answered
        # honestly afterwards, or is not retried when due, is a violation of this property (no TERM and no channel on hold occur
        # in these histories, so the known findings of C15/C16 cannot)
        qsengine.report(ck, "C18", runs, tbad, accept=("C18", "C03", "C04", "C14", "C02", "C15", "C16"))

    ck.cov["rule"] = ("cleaner: %d requests = 16 heads x every tail over {1,2,0,/,.,x,0x80} up to length %d, all short strings, boundary lengths, "
                      "numbers around 2^31/2^32/2^63/2^64, seeded random; each followed by a sentinel request so that every unlink and status byte "
                      "is attributed; non-trivial = not the sentinel; distinct by request bytes" % (len(reqs), 4 if thorough else 3))
    ck.assumptions += ["the shim records every unlink() and write() of qmail-clean", "ageing of pid/ files is outside request serving"]
    ck.finish()


if __name__ == "__main__":
    main_wrapper(main)
