#!/usr/bin/env python3
"""C06 Outbound SMTP DATA cannot be terminated or hijacked by message content.

  model   spec/RemoteBlast.tla  (P: transcription of qmail-remote.c blast()) x environment that
          supplies every message over {CR,LF,'.','x'} up to MaxLen; invariant EncodingSound
          (= monitor EncVerdict of spec/SmtpData.tla)
  impl    (a) blast() of the current tree through the repository's own test seam, every message
              up to a length bound x several read chunkings, plus random long messages
          (b) the real qmail-remote binary sending messages to a scripted SMTP server through
              control/smtproutes; every byte between 354 and the end of the connection recorded
  verdict every record is judged by TLC with the same monitor (spec/RemoteBlastRec.tla)
"""
import sys, os, json, argparse, threading, queue, random
sys.path.insert(0, os.path.join(os.path.dirname(os.path.abspath(__file__)), "..", "lib"))
from vlib import *
import smtpsrv

ALPHA = [13, 10, 46, 120]


def gen_random_messages(rng, n, maxlen):
    out = []
    for _ in range(n):
        ln = rng.choice([rng.randint(0, 40), rng.randint(1000, 1100), rng.randint(2040, 2060), rng.randint(0, maxlen)])
        w = rng.choice([(3, 3, 3, 1, 1), (1, 2, 1, 6, 2), (2, 1, 2, 1, 0)])
        m = []
        for _ in range(ln):
            k = rng.choices(range(5), weights=w)[0]
            m.append(ALPHA[k] if k < 4 else rng.randrange(1, 256))
        if rng.random() < 0.8:
            m.append(10)
        out.append(m)
    return out


def seam_records(ck, tree, maxlen, chunks, randoms):
    """Returns list of records or None if the seam no longer applies (refactored away)."""
    try:
        without_main(tree, "qmail-remote.c")
        r = run(["./compile", "qmail-remote-nomain.c"], cwd=tree.src)
        if r.returncode != 0:
            raise Infra(r.stdout.decode(errors="replace"))
        libs = ("qmail-remote-nomain.o control.o ip.o constmap.o timeoutread.o timeoutwrite.o quote.o "
                "stralloc.a str.a error.a substdio.a fs.a open.a getln.a str.a case.a").split()
        exe = cc(os.path.join(tree.src, "remote_blast"), [os.path.join(HARNESS, "remote_blast.c")],
                 cflags=["-I" + tree.src], libs=[os.path.join(tree.src, l) for l in libs])
    except Infra as e:
        log("C06: function-level seam unavailable (%s); binary-level path only" % str(e)[:300])
        return None
    recs = []
    f1 = ck.scratch.path("seam_enum.ndjson")
    r = run([exe, f1, "enum", str(maxlen), ",".join(map(str, chunks))], timeout=600)
    if r.returncode != 0:
        log("C06: seam harness failed (%d); binary-level path only" % r.returncode)
        return None
    f2 = ck.scratch.path("seam_rand.ndjson")
    inp = "".join("%d %s\n" % (c, bytes(m).hex()) for m in randoms for c in (1, 1024))
    r = run([exe, f2, "stdin"], input=inp.encode(), timeout=600)
    if r.returncode != 0:
        log("C06: seam harness failed on random input (%d)" % r.returncode)
        return None
    for fn in (f1, f2):
        with open(fn) as f:
            for line in f:
                recs.append(json.loads(line))
    return recs


def binary_records(ck, tree, messages, nworkers=16, datacode=None):
    """Real qmail-remote -> scripted server; returns records in the seam format (c = 0)."""
    eps = [smtpsrv.Endpoint(i) for i in range(nworkers)]
    with open(os.path.join(tree.root, "control", "smtproutes"), "w") as f:
        f.write("".join(ep.route() + "\n" for ep in eps))
    with open(os.path.join(tree.root, "control", "timeoutremote"), "w") as f:
        f.write("20\n")
    q = queue.Queue()
    for i, m in enumerate(messages):
        q.put((i, m))
    recs = [None] * len(messages)

    def work(ep):
        while True:
            try:
                i, m = q.get_nowait()
            except queue.Empty:
                return
            script = {"rawdata": True}
            if datacode:
                script["data"] = {"code": datacode % 1000, "multi": False}
                if datacode >= 1000:
                    # a reply of three lines to one of the commands before it (the client must still be in step when DATA is refused)
                    script[{1: "helo", 2: "mail", 3: "rcpt0"}[datacode // 1000]] = {"code": 250, "multi": True}
            obs, out, rc = smtpsrv.run_remote(tree, ep, bytes(m), "s@sender.test", ["r@" + ep.host], script)
            first = out[:1].decode("latin1")
            if "raw" in obs:
                raw = obs["raw"]
                if raw.endswith(b"QUIT\r\n"):
                    raw = raw[:-6]
                # qmail-remote's own report decides whether it considers the payload sent
                res = "ok" if b"\0K" in out or out.startswith(b"K") or b"\x00K" in out else \
                      ("refused" if b"\0D" in out or first == "D" else "temp")
                if datacode:
                    res = "nodata"
                recs[i] = {"i": list(m), "c": 0, "o": list(raw), "r": res, "report": out.decode("latin1")[:200]}
            else:
                recs[i] = {"i": list(m), "c": 0, "o": [], "r": "noconn:" + obs["phase_end"], "report": out.decode("latin1")[:200]}

    ths = [threading.Thread(target=work, args=(ep,)) for ep in eps]
    for t in ths:
        t.start()
    for t in ths:
        t.join()
    for ep in eps:
        ep.close()
    return recs


def fault_records(ck, tree, messages, nworkers=16):
    """Real qmail-remote with ONE failing system call per run (EIO on the k-th intercepted call, every k): a read error on the
    message must never look like the end of the message - whatever fails, a transmission reported as accepted carries the
    whole message, and an abandoned one contains no end-of-data."""
    import sandbox
    eps = [smtpsrv.Endpoint(100 + i) for i in range(nworkers)]
    with open(os.path.join(tree.root, "control", "smtproutes"), "a") as f:
        f.write("".join(ep.route() + "\n" for ep in eps))
    # how many intercepted calls a clean run makes
    tr = ck.scratch.path("fault0.trace")
    env0 = sandbox.shim_env(tree, trace=tr, role="remote")
    smtpsrv.run_remote(tree, eps[0], bytes(messages[0]), "s@sender.test", ["r@" + eps[0].host], {"rawdata": True}, env=env0)
    ncalls = len([e for e in sandbox.read_trace(tr) if e.get("c") not in ("exit", "hello")])
    if ncalls < 5:
        raise Infra("the traced qmail-remote made only %d intercepted calls" % ncalls)
    q = queue.Queue()
    for mi, m in enumerate(messages):
        for k in range(1, ncalls + 12):
            q.put((mi, m, k, "5"))
            # a write that takes only part of what it is given (legal for write(2)): the rest must follow, nothing twice
            for short in ("short1", "short987", "short500"):
                q.put((mi, m, k, short))
    recs = []
    lock = threading.Lock()

    def work(ep):
        while True:
            try:
                mi, m, k, what = q.get_nowait()
            except queue.Empty:
                return
            t = ck.scratch.path("fault.%d.%d.%s.trace" % (mi, k, what))
            env = sandbox.shim_env(tree, trace=t, role="remote", extra={"VERIF_FAULT": "%d:%s" % (k, what)})
            obs, out, rc = smtpsrv.run_remote(tree, ep, bytes(m), "s@sender.test", ["r@" + ep.host], {"rawdata": True}, env=env, timeout=8.0)
            tev = sandbox.read_trace(t)
            hit = [e for e in tev if (e.get("res") == -1 and e.get("e") == 5) or e.get("inj")]
            os.unlink(t) if os.path.exists(t) else None
            if what != "5" and not hit:
                continue          # the k-th call was not a write: nothing was injected, the run is a duplicate of the clean one
            raw = obs.get("raw", b"")
            if raw.endswith(b"QUIT\r\n"):
                raw = raw[:-6]
            first = out[:1].decode("latin1")
            res = "ok" if b"\0K" in out or first == "K" else "failed"
            with lock:
                recs.append({"i": list(m), "c": 0, "o": list(raw), "r": res, "k": k, "on": ((hit[0].get("c", "?") + ":" + str(hit[0].get("fd", ""))) if hit else "none") + ("" if what == "5" else "/" + what),
                             "report": out.decode("latin1")[:120]})

    ths = [threading.Thread(target=work, args=(ep,)) for ep in eps]
    for t in ths:
        t.start()
    for t in ths:
        t.join()
    for ep in eps:
        ep.close()
    return recs


def enum_messages(maxlen):
    out = [[]]
    level = [[]]
    for _ in range(maxlen):
        level = [m + [a] for m in level for a in ALPHA]
        out += level
    return out


def main():
    ap = argparse.ArgumentParser()
    ap.add_argument("--tier", default=os.environ.get("VERIF_TIER", "quick"))
    ap.add_argument("--replay")
    a = ap.parse_args()
    ck = Check("C06", a.tier)
    thorough = a.tier == "thorough"
    model_len, seam_len, bin_len = (10, 9, 6) if thorough else (8, 7, 4)
    nrand = 400 if thorough else 120

    # ---- 1. the design: every message up to model_len through the program-layer machine
    cfg = ck.scratch.path("RemoteBlast.cfg")
    with open(cfg, "w") as f:
        f.write("SPECIFICATION Spec\nCONSTANTS\n Alphabet = {13, 10, 46, 120}\n MaxLen = %d\n FIXED = TRUE\nINVARIANT EncodingSound\n" % model_len)
    res = need_ok(tlc("RemoteBlast", cfg, workers=NCPU, timeout=1500, heap="8g"), "RemoteBlast model")
    ck.add_tlc("RemoteBlast(MaxLen=%d)" % model_len, res)
    if res.violated:
        ck.model_violation("RemoteBlast", res)

    # ---- 2. the code
    tree = build_tree(ck.scratch, split=3)
    if a.replay:
        case = json.load(open(a.replay))["case"]
        msgs = [case["i"]]
        seam = None
        recs = []
        s = seam_records(ck, tree, 0, [1], msgs)
        if s:
            recs += s[1:]
        recs += binary_records(ck, tree, msgs, nworkers=1)
    else:
        randoms = gen_random_messages(ck.rng, nrand, 3000)
        recs = seam_records(ck, tree, seam_len, [1, 2, 3, 1024], randoms) or []
        seam_ok = bool(recs)
        # binary level: exhaustive short messages, a slice of the random ones, and (if the seam is
        # gone) a deeper enumeration instead
        bmsgs = enum_messages(bin_len if seam_ok else bin_len + 2) + randoms[: (nrand // 2 if seam_ok else nrand)]
        brecs = binary_records(ck, tree, bmsgs)
        noconn = [r for r in brecs if r["r"].startswith("noconn")]
        if len(noconn) > len(brecs) // 20:
            raise Infra("qmail-remote did not reach the scripted server in %d of %d runs: %s" % (len(noconn), len(brecs), noconn[0]))
        recs += [r for r in brecs if not r["r"].startswith("noconn")]
        # the server refuses the DATA command: the message (its lines chosen to look like commands) must not be sent at all
        cmdlike = [list(b"RSET\nMAIL FROM:<x@y>\nRCPT TO:<v@w>\nDATA\nsmuggled\n.\nQUIT\n"), list(b"QUIT\n"), [120, 10], [46, 10], []]
        nd = []
        for dc in (451, 421, 554, 452, 1451, 1554, 2451, 3451, 3554):
            nd += [r for r in binary_records(ck, tree, cmdlike, datacode=dc) if not r["r"].startswith("noconn")]
        recs += nd
        ck.cov["transmissions_with_data_refused"] = len(nd)
        # one failing system call per run
        fmsgs = [list(b"Subject: f\n\n" + b"".join(b"line %04d of the body, with a dot line next\n.\n..x\n" % i for i in range(60))),
                 list(b"a\r\nb\n" * 700), [120] * 1023 + [10] + [46, 10] * 600]
        if thorough:
            fmsgs += [m for m in randoms if len(m) < 1200][:3]
        frecs = fault_records(ck, tree, fmsgs)
        recs += frecs
        ck.cov["runs_with_one_failing_call"] = len(frecs)
        ck.cov["failing_reads_of_the_message"] = len([r for r in frecs if r["on"] == "read:0"])
        ck.cov["short_writes_on_the_connection"] = len([r for r in frecs if "/short" in r["on"]])
        if not ck.cov["failing_reads_of_the_message"]:
            raise Infra("no injected fault hit a read of the message")
        ck.cov["seam_available"] = seam_ok
        ck.cov["binary_level_transmissions"] = len(brecs) - len(noconn)

    # ---- 3. TLC judges every record
    recfile = ck.scratch.path("c06.ndjson")
    write_ndjson(recfile, [{"i": r["i"], "o": r["o"], "r": r["r"]} for r in recs])
    bad, vres = tlc_validate_records("RemoteBlastRec", "RemoteBlastRec.cfg", recfile, len(recs), chunk=300, timeout=3000)
    ck.add_tlc("RemoteBlastRec", vres)
    ck.cov["traces_validated_against_impl"] = len(recs)
    for r in recs:
        ck.count((tuple(r["i"]),), nontrivial=any(b in (13, 46) for b in r["i"]))
    for r in recs[:200:40] + recs[-2:]:
        ck.sample({"message": r["i"][:40], "chunk": r["c"], "wire": r["o"][:60], "result": r["r"]})
    ck.cov["rule"] = ("every message over {CR,LF,'.','x'} up to length %d x read chunkings {1,2,3,1024} through blast() of the "
                      "current tree, up to length %d through the real qmail-remote binary to a scripted server, plus %d seeded random "
                      "messages up to 3000 bytes; non-trivial = message contains CR or '.'; distinct by message bytes" % (seam_len, bin_len, nrand))
    ck.cov["exhaustive"] = True
    ck.assumptions += ["the scripted SMTP server records the bytes of the TCP stream faithfully",
                       "alphabet {CR, LF, '.', x} represents every byte class the encoder distinguishes"]
    # report the shortest witness per failing clause
    best = {}
    for idx, why in bad:
        r = recs[idx - 1]
        why = why.strip('"')
        if why not in best or len(r["i"]) < len(best[why]["i"]):
            best[why] = r
    for why, r in sorted(best.items()):
        key = "%s:in=%s" % (why, ",".join(map(str, r["i"][:24])))
        if "on" in r:
            key += ":fault=" + r["on"]
        ck.violation(key, "message %s sent as %s (%s, chunk %s%s)" % (r["i"][:24], r["o"][:40], r["r"], r["c"], (", EIO injected on %s" % r["on"]) if "on" in r else ""), r)
    ck.finish()


if __name__ == "__main__":
    main_wrapper(main)
