#!/usr/bin/env python3
"""X01 (beyond the listed properties) The queue as the operator sees it: qmail-qread lists exactly the queue.

  model   the X01 clauses of spec/QSendMon.tla (event `qread`): at a quiescent moment every preprocessed message is listed with
          its sender, every recipient on its channel, marked done exactly if the daemon has marked it; nothing else is listed
  impl    seeded histories on the real qmail-send / qmail-clean / qmail-queue under the gate (the ones of C03) with the real
          qmail-qread run at random quiescent moments (between reports, retries, TERM/restart)
  verdict spec/QSendTrace.tla
This check is not part of MANIFEST.json (the property list is fixed); it is specification coverage beyond the list.
"""
import sys, os, json, argparse
sys.path.insert(0, os.path.join(os.path.dirname(os.path.abspath(__file__)), "..", "lib"))
from vlib import *
import histories, qsengine


def main():
    ap = argparse.ArgumentParser()
    ap.add_argument("--tier", default=os.environ.get("VERIF_TIER", "quick"))
    ap.add_argument("--replay")
    a = ap.parse_args()
    ck = Check("X01", a.tier)
    thorough = a.tier == "thorough"
    tree = build_tree(ck.scratch, split=3)
    hs = []
    for i in range(200 if thorough else 50):
        h = histories.gen_history(ck.rng, 9000 + i, thorough, many=(i % 2 == 0))
        if not any(x[0] == "qread" for x in h["script"]):
            h["script"].insert(ck.rng.randint(1, len(h["script"])), ("qread",))
        h["script"].append(("qread",))
        hs.append(h)
    runs = qsengine.run_histories(ck, tree, hs)
    bad, res = qsengine.judge(ck, runs)
    ck.add_tlc("QSendTrace", res)
    ck.cov["traces_validated_against_impl"] = len(runs)
    ck.cov["queue_listings"] = sum(1 for r in runs for e in r["ev"] if e["op"] == "qread")
    ck.cov["listed_lines"] = sum(len(e["recs"]) for r in runs for e in r["ev"] if e["op"] == "qread")
    for r in runs:
        ck.count(("hist", r["h"]["id"]), nontrivial=any(e["op"] == "qread" and e["recs"] for e in r["ev"]))
    ex = next((e for r in runs for e in r["ev"] if e["op"] == "qread" and len(e["recs"]) > 2), None)
    if ex:
        ck.sample({"listing (message, channel or -1 = header line, address or sender index, done or bouncing)": ex["recs"][:10]})
    if not ck.cov["listed_lines"]:
        raise Infra("no queue listing showed anything")
    qsengine.report(ck, "X01", runs, bad)
    ck.cov["rule"] = "%d seeded histories with qmail-qread at quiescent moments; non-trivial = a listing showed at least one message" % len(runs)
    ck.finish()


if __name__ == "__main__":
    main_wrapper(main)
