#!/usr/bin/env python3
"""X07 (beyond the listed properties) maildir2mbox(1) is reliable: it moves every message of a maildir into the mbox file in mbox
format, and whatever happens - a failing call, a kill, a machine crash, a second run - no message is ever in neither place and a
reader of the mbox never sees part of a run.

  model   spec/M2M.tla + M2MFmtModel.tla (bytes: what the per-file loop writes is read back by the reader of mbox(5) as exactly the
          files, for every file of up to 2 / 3 lines of the kinds From_ / >From_ / x / "" / F / > with and without a final LF and
          with every form of first line; the loop as found - a final partial line is dropped - must be rejected) and
          spec/M2MRun.tla (files: main() call by call over a file-system model with one failing call, Kill, Crash with loss of
          un-synced data, deliveries meanwhile, a second run; invariants NoLoss, OldKept, AllOrNothing, ExitOk, ExitFail; four
          wrong variants - no fsync, unlink before rename, append in place, unchecked write - must be rejected)
  impl    the real maildir2mbox under the shim (virtual clock, trace): clean runs over generated maildirs (new/ and cur/, files too
          young to move, stale temporary file, messages straddling the 8192-byte buffers), and for the scenarios of the fault set
          one run per intercepted call failing, per write coming up short, and killed before the call
  verdict spec/M2MRec.tla
This check is not part of MANIFEST.json (the property list is fixed); it is specification coverage beyond the list.
"""
import sys, os, json, argparse, subprocess, shutil
sys.path.insert(0, os.path.join(os.path.dirname(os.path.abspath(__file__)), "..", "lib"))
from vlib import *
import sandbox, sessions

NOW = 100100000
LINES = [b"From x", b">From x", b">>From x", b"x", b"", b"F", b">", b"From ", b"From: a@b", b"Subject: s", b" From x", b"\0\xff", b"a\rb"]
HEADS = [b"", b"Return-Path: <s@h.example>\n", b"Return-Path: <>\n", b'Return-Path: <"a b"@h.example>\n', b"Return-Path: <a\tb@h.example>\n",
         b"Return-Path: x\n", b"Return-Path: <s@h.example>", b"Delivered-To: u@h\n"]
OLDS = [b"", b"From o@e Sat Jan 03 01:05:34 1996\nSubject: old\n\n>From the past\n\n", b"From o D\nx\n\nFrom MAILER-DAEMON D\n\n"]


def gen_file(rng, big=False):
    h = rng.choice(HEADS)
    if h and not h.endswith(b"\n"):
        return h
    n = rng.choice([0, 1, 1, 2, 3, 5])
    ls = [rng.choice(LINES) + (bytes(rng.choice([120, 32, 62, 70]) for _ in range(rng.choice([0, 0, 3, 40]))) if rng.random() < 0.3 else b"") for _ in range(n)]
    if big:
        ls += [b"y" * rng.choice([1000, 1023, 1024, 2000])] * rng.choice([5, 9]) + [rng.choice(LINES)]
    body = b"\n".join(ls)
    if ls and rng.random() < 0.6:
        body += b"\n"
    return h + body


def make_scenario(rng, idx, big=False, nfiles=None):
    nf = nfiles if nfiles is not None else rng.choice([1, 1, 2, 3, 4])
    files = []
    times = rng.sample(range(NOW - 90000000, NOW - 10), nf)
    for j in range(nf):
        young = rng.random() < 0.12
        files.append({"name": "%d.%d.host" % (1000 + j, idx), "sub": rng.choice(["new", "new", "cur"]), "data": gen_file(rng, big and j == 0),
                      "mtime": NOW + rng.choice([0, 5]) if young else times[j]})
    if nf >= 2 and rng.random() < 0.15 and files[0]["mtime"] < NOW and files[1]["mtime"] < NOW:
        files[1]["mtime"] = files[0]["mtime"]           # a tie: either order is right
    return {"i": idx, "files": files, "old": rng.choice(OLDS), "stale": rng.random() < 0.3, "tmpfiles": rng.random() < 0.3}


def setup(d, sc):
    if os.path.exists(d):
        shutil.rmtree(d)
    for s in ("new", "cur", "tmp"):
        os.makedirs(os.path.join(d, "Maildir", s))
    for f in sc["files"]:
        p = os.path.join(d, "Maildir", f["sub"], f["name"])
        with open(p, "wb") as fh:
            fh.write(f["data"])
        os.utime(p, (f["mtime"], f["mtime"]))
    with open(os.path.join(d, "mbox"), "wb") as fh:
        fh.write(sc["old"])
    if sc["stale"]:
        with open(os.path.join(d, "mbox.tmp"), "wb") as fh:
            fh.write(b"From stale leftovers of a run that died\n\n" * 3)
    if sc["tmpfiles"]:
        for nm, at in (("old.tmp", NOW - 200000), ("young.tmp", NOW - 100)):
            p = os.path.join(d, "Maildir", "tmp", nm)
            with open(p, "wb") as fh:
                fh.write(b"partial")
            os.utime(p, (at, at))
    with open(os.path.join(d, "clock"), "w") as fh:
        fh.write("%d\n" % NOW)


def run_once(tree, d, sc, mode="none", k=0, what=""):
    setup(d, sc)
    ino0 = os.stat(os.path.join(d, "mbox")).st_ino
    tr = os.path.join(d, "trace")
    extra = {"MAILDIR": os.path.join(d, "Maildir"), "MAIL": os.path.join(d, "mbox"), "MAILTMP": os.path.join(d, "mbox.tmp")}
    if mode in ("fail", "short"):
        extra["VERIF_FAULT"] = "%d:%s" % (k, what)
    elif mode == "kill":
        extra["VERIF_KILL"] = str(k)
    env = sandbox.shim_env(tree, trace=tr, role="m2m", clock=os.path.join(d, "clock"), root=d, extra=extra)
    p = subprocess.run([tree.bin("maildir2mbox")], env=env, stdout=subprocess.PIPE, stderr=subprocess.PIPE, timeout=60)
    rc = p.returncode if p.returncode >= 0 else -9
    ev = sandbox.read_trace(tr)
    after = open(os.path.join(d, "mbox"), "rb").read()
    st = os.stat(os.path.join(d, "mbox"))
    # durability of the inode that $MAIL names now, from the trace
    size, dur, cl = {}, {}, {}
    statok = set()
    for e in ev:
        c = e.get("c")
        if c == "write" and e.get("reg") and e.get("res", -1) > 0 and "ino" in e:
            i = e["ino"]
            size[i] = max(size.get(i, 0), e.get("off", 0) + e["res"])
            cl[i] = 0
        elif c == "open" and e.get("trunc") and e.get("res", -1) >= 0 and "ino" in e:
            size[e["ino"]] = 0; dur[e["ino"]] = 0; cl[e["ino"]] = 0
        elif c in ("fsync", "fdatasync") and e.get("res") == 0 and "ino" in e:
            dur[e["ino"]] = size.get(e["ino"], 0)
        elif c == "close" and e.get("res") == 0:
            for i in list(cl):
                pass
        elif c == "stat" and e.get("res") == 0:
            statok.add(e.get("path"))
    # close events carry no inode: attribute a successful close of the temporary file's path
    for e in ev:
        if e.get("c") == "close" and e.get("res") == 0 and str(e.get("obj", "")).endswith("mbox.tmp"):
            for i in cl:
                cl[i] = 1
        if e.get("c") == "write" and e.get("reg") and e.get("res", -1) > 0 and "ino" in e and str(e.get("obj", "")).endswith("mbox.tmp"):
            cl[e["ino"]] = 0
    newino = 1 if st.st_ino != ino0 else 0
    if newino:
        d_, c_ = dur.get(st.st_ino, 0), cl.get(st.st_ino, 0)
    else:
        d_, c_ = len(after), 1
    files = []
    for f in sorted(sc["files"], key=lambda f: (f["mtime"], f["sub"] != "new", f["name"])):
        p = os.path.join(d, "Maildir", f["sub"], f["name"])
        old = 1 if f["mtime"] < NOW else 0
        files.append({"data": list(f["data"]), "mtime": f["mtime"], "oldenough": old, "found": 1 if (old and p in statok) else 0,
                      "left": 1 if os.path.exists(p) else 0})
    fcall = ""
    if mode != "none":
        for e in ev:
            if e.get("k") == k and e.get("c") not in ("start", "exit"):
                fcall = e["c"]
    tmpyoung = os.path.exists(os.path.join(d, "Maildir", "tmp", "young.tmp")) if sc["tmpfiles"] else True
    return {"sc": sc["i"], "old": list(sc["old"]), "after": list(after), "files": files, "exit": rc, "fault": mode, "fcall": fcall, "k": k,
            "newino": newino, "dur": d_, "cl": c_, "tmpyoung": 1 if tmpyoung else 0}, ev


def main():
    ap = argparse.ArgumentParser()
    ap.add_argument("--tier", default=os.environ.get("VERIF_TIER", "quick"))
    ap.add_argument("--replay")
    a = ap.parse_args()
    ck = Check("X07", a.tier)
    thorough = a.tier == "thorough"
    rng = ck.rng
    sc = ck.scratch

    # ------------------------------------------------------------------ models
    def cfg(name, text):
        p = sc.path(name)
        with open(p, "w") as f:
            f.write(text)
        return p
    fmt = "SPECIFICATION Spec\nCONSTANTS Variant = \"%s\"\n MaxLines = %d\nINVARIANT %s\nCHECK_DEADLOCK FALSE\n"
    res = need_ok(tlc("M2MFmtModel", cfg("fmt.cfg", fmt % ("ok", 3 if thorough else 2, "ReadBack")), workers=8, timeout=1500, heap="6g"), "M2MFmtModel")
    ck.add_tlc("M2MFmtModel", res)
    if res.violated:
        ck.model_violation("M2MFmtModel", res)
    for nm, variant, inv in (("as found", "asfound", "ReadBack"), ("order", "ok", "OrderBlind")):
        r2 = need_ok(tlc("M2MFmtModel", cfg("fmt-%s-%s.cfg" % (variant, inv), fmt % (variant, 1, inv)), workers=4, timeout=600, heap="4g"), "M2MFmtModel sanity")
        if inv not in r2.violated:
            raise Infra("sanity: M2MFmtModel (%s) should violate %s" % (nm, inv))
    runcfg = ("SPECIFICATION Spec\nCONSTANTS Msgs = {%s}\n Late = {%s}\n MaxFaults = %d\n MaxRuns = %d\n Mut = \"%s\"\n"
              "INVARIANT NoLoss\nINVARIANT OldKept\nINVARIANT AllOrNothing\nINVARIANT ExitOk\nINVARIANT ExitFail\n%sCHECK_DEADLOCK FALSE\n")
    big = ("1, 2, 3", "4", 2, 2) if thorough else ("1, 2", "3", 1, 2)
    res = need_ok(tlc("M2MRun", cfg("run.cfg", runcfg % (big + ("none", ""))), workers=8, timeout=1500, heap="6g"), "M2MRun")
    ck.add_tlc("M2MRun", res)
    if res.violated:
        ck.model_violation("M2MRun", res)
    for mut in ("nofsync", "unlinkfirst", "inplace", "ignorewrite"):
        r2 = need_ok(tlc("M2MRun", cfg("run-%s.cfg" % mut, runcfg % ("1, 2", "3", 1, 2, mut, "")), workers=4, timeout=600, heap="4g"), "M2MRun " + mut)
        if not r2.violated:
            raise Infra("sanity: M2MRun with Mut=%s should violate an invariant" % mut)
    # a limit of the design the manual hints at ("protect against simultaneous access by a mail reader"): a delivering qmail-local
    # that opened the mbox before the rename appends to an inode $MAIL no longer names.  The model must show it (WriterKeeps fails).
    r3 = need_ok(tlc("M2MRun", cfg("run-writer.cfg", "SPECIFICATION Spec\nCONSTANTS Msgs = {1, 2}\n Late = {3}\n MaxFaults = 1\n MaxRuns = 2\n Mut = \"writer\"\nINVARIANT WriterKeeps\nCHECK_DEADLOCK FALSE\n"),
                     workers=4, timeout=600, heap="4g"), "M2MRun writer")
    if "WriterKeeps" not in r3.violated:
        raise Infra("M2MRun: the variant with a delivering qmail-local beside maildir2mbox should lose that delivery")
    ck.cov["design_limit_shown_by_the_model"] = "a delivery to the mbox that waits for maildir2mbox's lock is appended to the replaced inode (WriterKeeps fails for Mut = writer)"
    r2 = need_ok(tlc("M2MRun", cfg("run-cov.cfg", runcfg % ("1, 2", "3", 1, 2, "none", "INVARIANT SecondRunNeverCompletes\n")), workers=4, timeout=600, heap="4g"), "M2MRun coverage")
    if "SecondRunNeverCompletes" not in r2.violated:
        raise Infra("coverage: no behaviour of M2MRun completes a second run after a crash between rename and unlink")

    # ------------------------------------------------------------------ real runs
    tree = build_tree(sc, queue=False, targets=("maildir2mbox",))
    nclean = 400 if thorough else 150
    nfault = 12 if thorough else 5
    scen = [make_scenario(rng, i, big=(i % 25 == 7)) for i in range(nclean)]
    # the fault set: small maildirs of 1..3 messages, one with a message that needs several writes
    fset = [make_scenario(rng, 10000 + i, big=(i == 1), nfiles=[2, 1, 3, 2, 1][i % 5]) for i in range(nfault)]
    # the 8192-byte output buffer fills (and is written out) inside the From_ line of the second message, inside its first line,
    # and exactly between two messages: a failing write is then noticed by a different substdio_put each time
    for j, d in enumerate((5, 40, 0, 8192 + 12)):
        head = b"Return-Path: <s@h.example>\n"
        fill = 8192 - d - (5 + 11 + 1 + 24 + 1) - len(head) - 1          # "From s@h.example <ctime>\n" head body "\n"
        body = b"".join(b"z" * 99 + b"\n" for _ in range(fill // 100)) + b"z" * (fill % 100 - 1) + b"\n"
        fset.append({"i": 10100 + j, "old": b"", "stale": j % 2 == 1, "tmpfiles": False, "files": [
            {"name": "1.%d.host" % j, "sub": "new", "data": head + body, "mtime": NOW - 5000},
            {"name": "2.%d.host" % j, "sub": "cur", "data": head + b"Subject: second\n\nFrom here on\nlast", "mtime": NOW - 4000}]})
    for s in fset:
        for f in s["files"]:
            if f["mtime"] >= NOW:
                f["mtime"] = NOW - 1000 - len(f["data"])

    def clean(s):
        d = sc.path("c%d" % s["i"])
        r, ev = run_once(tree, d, s)
        shutil.rmtree(d, ignore_errors=True)
        return r, [(e["k"], e["c"]) for e in ev if e.get("c") not in ("start", "exit", "forked", "hello")]

    out = sessions.pmap(clean, scen + fset)
    recs = [r for r, _ in out]
    jobs = []
    for s, (_, calls) in zip(fset, out[len(scen):]):
        seen = set()
        for k, c in calls:
            if k in seen or k <= 0:
                continue
            seen.add(k)
            jobs.append((s, "fail", k, "5"))
            jobs.append((s, "kill", k, ""))
            if c == "write":
                jobs.append((s, "short", k, "short1"))
                jobs.append((s, "fail", k, "28"))

    def faulty(j):
        s, mode, k, what = j
        d = sc.path("f%d-%s-%d-%s" % (s["i"], mode, k, what))
        r, _ = run_once(tree, d, s, mode, k, what)
        shutil.rmtree(d, ignore_errors=True)
        return r

    recs += sessions.pmap(faulty, jobs)
    f = sc.path("x07.ndjson")
    write_ndjson(f, recs)
    bad, vres = tlc_validate_records("M2MRec", "M2MRec.cfg", f, len(recs), chunk=25, heap="8g", timeout=2400)
    ck.add_tlc("M2MRec", vres)
    for r in recs:
        ck.count((r["sc"], r["fault"], r["k"], r["exit"]), nontrivial=bool(r["files"]))
    ck.cov["traces_validated_against_impl"] = len(recs)
    ck.cov["runs_by_kind"] = {m: sum(1 for r in recs if r["fault"] == m) for m in ("none", "fail", "short", "kill")}
    ck.cov["runs_by_exit_status"] = {str(k): sum(1 for r in recs if r["exit"] == k) for k in sorted(set(r["exit"] for r in recs))}
    ck.cov["calls_hit_by_faults"] = sorted(set(r["fcall"] for r in recs if r["fcall"]))
    ck.cov["runs_that_replaced_the_mbox"] = sum(1 for r in recs if r["newino"])
    ck.cov["killed_between_rename_and_last_unlink"] = sum(1 for r in recs if r["fault"] == "kill" and r["newino"] and any(x["left"] and x["found"] for x in r["files"]))
    best = {}
    for idx, why in bad:
        why = why.strip('"')
        r = recs[idx - 1]
        shape = "partial-last-line" if any(x["data"] and x["data"][-1] != 10 for x in r["files"]) else "complete-lines"
        key = "m2m:%s:%s:fault=%s@%s" % (why, shape, r["fault"], r["fcall"])
        if key not in best:
            best[key] = idx
    for key, idx in sorted(best.items()):
        r = recs[idx - 1]
        ck.violation(key, "maildir2mbox run (scenario %d, %s at call %d %s) exit %d: mbox %d -> %d bytes, files %s" % (
            r["sc"], r["fault"], r["k"], r["fcall"], r["exit"], len(r["old"]), len(r["after"]),
            [(bytes(x["data"])[:40], x["found"], x["left"]) for x in r["files"]]), {k: v for k, v in r.items() if k not in ("old", "after", "files")})
    for r in recs:
        if not r["tmpyoung"]:
            ck.violation("m2m:YoungTmpFileRemoved", "a file of tmp/ accessed 100 s ago was removed by maildir_clean (maildir(5): 36 hours)", {"sc": r["sc"]})
            break
    ck.cov["rule"] = "distinct (scenario, fault kind, call index, exit status)"
    ck.finish()


if __name__ == "__main__":
    main_wrapper(main)
