#!/usr/bin/env python3
"""C17 Address quoting and parsing agree; header recipients become the envelope.

  model   spec/Addr.tla       E: RFC 822 / RFC 821 readings of an encoded local part (Dec822, Dec821), the documented
                                 default-host / default-domain / plus-domain rewriting (RwDom), which fields feed the
                                 envelope (ExpectedRcpts), monitors QaVerdict/QhVerdict/QsVerdict/ListVerdict
                              P: transcriptions of quote.c, addrmangle, token822_parse/_unquote/_unparse/_addrlist,
                                 commands()+addrparse, rwgeneric, doheaderfield/exitnicely
          spec/AddrQuote.tla  every local part over 21 byte classes up to MaxLen: reader(writer(a)) = a on both paths,
                              the written forms are RFC encodings of a, the readers agree with the RFC readings
          spec/AddrList.tla   token822_addrlist stepped token by token over every list of a bounded abstract grammar:
                              envelope = listed mailboxes after rewriting, rewritten field parses to the same
          spec/AddrInject.tla field kinds x strategies -a/-h/-H/default x arguments x forwarded or not
  impl    (qa) real qmail-inject -a with every enumerated address as argument (quote2 -> token822 -> envelope)
          (qh) real qmail-inject -n -f a prints the header form; that text fed back in To / Cc / Return-Path fields
          (qs) real qmail-remote sends MAIL FROM / RCPT TO for the addresses to a scripted server; exactly those
               command lines are fed to the real qmail-smtpd with the recording QMAILQUEUE stand-in
          (h)  real qmail-inject on generated headers (abstract list known by construction, rendered with random
               legal white space, comments, folding, phrases, routes, groups, missing commas), every strategy,
               -f, QMAILINJECT flags, configuration through environment and control files; the message it
               hands to the queue is injected a second time
  verdict TLC evaluates the monitors of spec/Addr.tla on every record (spec/AddrRec.tla)
"""
import sys, os, json, argparse, re, queue, itertools, time
sys.path.insert(0, os.path.join(os.path.dirname(os.path.abspath(__file__)), "..", "lib"))
from vlib import *
import sessions, smtpsrv
import c17_util as U

# Witnesses of genuine deviations of the unchanged tree that are reported and awaiting a decision
# (fix: commit in /repo or known: line in known_findings.txt).  Exactly these witness shapes are set
# aside (printed as PENDING-FINDING, counted in the evidence); everything else still decides the verdict.
PENDING_FINDINGS = [
    # (empty) the two genuine deviations found while building this check - a comment right after '<' hides the source
    # route from rwroute(), a comment right before '>' hides the trailing '+' from rwplus() - are recorded in
    # /verif/known_findings.txt (matched on the witness key by Check.violation); the AddrList model leaves these
    # two shapes out of its environment (PendingExcluded) and reproduces both with PendingExcluded = FALSE
]

# The transcription of rwgeneric() in spec/Addr.tla has the same two gaps (it is a transcription), so the list model
# leaves these two shapes out of its environment (spec/AddrList.tla, PendingExcluded).  Set to False only when
# qmail-inject.c has been repaired AND the transcription (RwRoute / RwPlus in spec/Addr.tla) follows it.
MODEL_EXCLUDES_PENDING_SHAPES = True

HOST = U.HOST
SMTPD_ENV = {"TCPREMOTEIP": "192.0.2.7", "TCPREMOTEHOST": "client.test", "TCPLOCALHOST": "mx.test.example", "TCPLOCALIP": "192.0.2.1"}


def chunks(l, n):
    return [l[i:i + n] for i in range(0, len(l), n)]


def B(x):
    return list(x) if x is not None else [-1]


# ------------------------------------------------------------------------------------------------
# quoting half
# ------------------------------------------------------------------------------------------------
def qa_records(tree, qq, lps, batch=400):
    """qmail-inject -a -- a1 a2 ...: recipients in argument order; a batch that does not come back one for one
    is re-run address by address."""
    addrs = [bytes(lp) + b"@" + HOST for lp in lps]
    bs = chunks(list(range(len(lps))), batch)

    def run(job):
        tag, idxs = job
        rc, _ = U.run_inject(tree, qq, tag, ["-a", "--"] + [addrs[i] for i in idxs], b"Subject: t\n\n")
        return rc
    jobs = [("qa%d" % k, b) for k, b in enumerate(bs)]
    rcs = sessions.pmap(run, jobs)
    got = qq.collect()
    back = [None] * len(lps)
    redo = []
    for (tag, idxs), rc in zip(jobs, rcs):
        q = got.get(tag, [])
        rcpts = sessions.parse_envelope(q[0]["env"])[1] if q else []
        if rc == 0 and len(rcpts) == len(idxs):
            for i, r in zip(idxs, rcpts):
                back[i] = r
        else:
            redo += idxs
    if redo:
        jobs = [("qx%d" % i, [i]) for i in redo]
        rcs = sessions.pmap(run, jobs)
        got = qq.collect()
        for (tag, idxs), rc in zip(jobs, rcs):
            q = got.get(tag, [])
            rcpts = sessions.parse_envelope(q[0]["env"])[1] if q else []
            back[idxs[0]] = rcpts[0] if rc == 0 and len(rcpts) == 1 else None
    return [B(b) for b in back]


def qh_records(tree, qq, lps):
    """qmail-inject -n -f a prints "Return-Path: <form>"; the form is fed back as To / Cc / Return-Path."""
    suffix = b"@" + HOST

    def run(job):
        i, lp = job
        a = bytes(lp) + suffix
        rc, out = U.run_inject_print(tree, ["-n", "-f", a], b"Subject: t\n\n")
        v = U.header_value(out, b"return-path") if rc == 0 else None
        hq = None
        if v is not None:
            v = v.strip(b" \t\n")
            if v.startswith(b"<") and v.endswith(suffix + b">"):
                hq = v[1:-len(suffix) - 1]
        if rc == 0 and v is None:
            return "unobservable", 0           # -n printed no Return-Path field: the header form cannot be seen this way
        if hq is None:
            return None, -1
        full = hq + suffix
        rc2, _ = U.run_inject(tree, qq, "qh%d" % i, ["-h"], b"Return-Path: <" + full + b">\nTo: " + full + b"\nCc: <" + full + b">\nSubject: t\n\n")
        return hq, rc2
    jobs = list(enumerate(lps))
    res = sessions.pmap(run, jobs)
    got = qq.collect()
    recs = []
    for (i, lp), (hq, rc2) in zip(jobs, res):
        if hq == "unobservable":
            recs.append({"hh": 0})
            continue
        q = got.get("qh%d" % i, [])
        snd, rcpts = None, []
        if q and rc2 == 0:
            snd, rcpts, _ = sessions.parse_envelope(q[0]["env"])
        b1, b2 = (rcpts + [None, None])[:2] if len(rcpts) == 2 else (None, None)
        recs.append({"hh": 1, "hq": B(hq), "b1": B(b1), "b2": B(b2), "snd": B(snd)})
    return recs


def qs_records(ck, tree, qq, lps, batch=150, nworkers=12):
    """Real qmail-remote (sender = first address of the batch, recipients = the batch) -> scripted server;
    the MAIL / RCPT lines it saw -> real qmail-smtpd -> envelope handed to the queue stand-in."""
    suffix = b"@" + HOST
    eps = [smtpsrv.Endpoint(i) for i in range(nworkers)]
    try:
        with open(os.path.join(tree.root, "control", "smtproutes"), "w") as f:
            f.write("".join(ep.route() + "\n" for ep in eps))
        with open(os.path.join(tree.root, "control", "timeoutremote"), "w") as f:
            f.write("20\n")
        epq = queue.Queue()
        for ep in eps:
            epq.put(ep)
        recs = [None] * len(lps)

        def stage(groups, tagp):
            """groups: lists of indices.  Returns indices that need a re-run one by one."""
            batches = [[bytes(lps[i]) + suffix for i in g] for g in groups]
            wire = U.smtp_wire_forms(tree, epq, batches)
            sess = []
            for gi, (g, (obs, out, rc)) in enumerate(zip(groups, wire)):
                cmds = [c.encode("latin1") for c in obs["cmds"]]
                mail = [c for c in cmds if c[:4].upper() == b"MAIL"]
                rcpt = [c for c in cmds if c[:4].upper() == b"RCPT"]
                if not mail and len(g) == 1:
                    raise Infra("qmail-remote did not reach the scripted server (%s): %r" % (obs["phase_end"], out[:200]))
                if len(mail) != 1 or len(rcpt) != len(g):
                    sess.append(None)
                    continue
                sess.append((mail[0], rcpt))

            def smtpd(job):
                gi, s = job
                if s is None:
                    return None
                env = dict(os.environ)
                env.update(SMTPD_ENV)
                env.update(qq.env("%s%d" % (tagp, gi)))
                inp = b"HELO client.test\r\n" + s[0] + b"".join(s[1]) + b"DATA\r\nSubject: t\r\n\r\n.\r\nQUIT\r\n"
                out, rc, to = sessions.run_daemon([tree.bin("qmail-smtpd")], inp, env, cwd=tree.root, timeout=60)
                if to:
                    raise Infra("qmail-smtpd session did not finish within 60 s (overloaded machine?)")
                return [c for c, _ in sessions.smtp_replies(out)]
            codes = sessions.pmap(smtpd, list(enumerate(sess)))
            got = qq.collect()
            redo = []
            for gi, (g, s, cs) in enumerate(zip(groups, sess, codes)):
                if s is None or cs is None or len(cs) != len(g) + 6:
                    if len(g) > 1:
                        redo += g
                    else:
                        # one address, and still no one-to-one exchange: record what there is
                        i = g[0]
                        sq = U.strip_cmd(s[1][0], b"RCPT TO:") if s and len(s[1]) == 1 else None
                        sq = sq[:-len(suffix)] if sq is not None and sq.endswith(suffix) else None
                        recs[i] = {"sq": B(sq), "sok": 0, "sback": [-1]}
                    continue
                q = got.get("%s%d" % (tagp, gi), [])
                snd, rcpts = None, []
                if q:
                    snd, rcpts, _ = sessions.parse_envelope(q[0]["env"])
                oks = [1 if 200 <= c < 300 else 0 for c in cs[3:3 + len(g)]]
                if sum(oks) != len(rcpts):
                    rcpts = [None] * sum(oks)          # the queue program did not get what the replies promised
                it = iter(rcpts)
                for i, line, ok in zip(g, s[1], oks):
                    sq = U.strip_cmd(line, b"RCPT TO:")
                    sq = sq[:-len(suffix)] if sq is not None and sq.endswith(suffix) else None
                    recs[i] = {"sq": B(sq), "sok": ok, "sback": B(next(it) if ok else None)}
                # the sender of the batch is its first address: one more record for MAIL FROM
                sq = U.strip_cmd(s[0], b"MAIL FROM:")
                sq = sq[:-len(suffix)] if sq is not None and sq.endswith(suffix) else None
                mok = 1 if 200 <= cs[2] < 300 else 0
                extra.append({"k": "qm", "lp": list(lps[g[0]]), "host": list(HOST), "sq": B(sq), "sok": mok,
                              "sback": B(snd if mok else None)})
            return redo
        extra = []
        redo = stage(chunks(list(range(len(lps))), batch), "sb")
        if redo:
            ck.cov["smtp_batches_rerun_singly"] = len(redo)
            stage([[i] for i in redo], "ss")
        if any(r is None for r in recs):
            raise Infra("SMTP path: %d addresses without a record" % len([r for r in recs if r is None]))
        return recs, extra
    finally:
        for ep in eps:
            ep.close()


# ------------------------------------------------------------------------------------------------
# header half
# ------------------------------------------------------------------------------------------------
CTL_NAMES = {"dh": ("defaulthost", "QMAILDEFAULTHOST"), "dd": ("defaultdomain", "QMAILDEFAULTDOMAIN"), "pd": ("plusdomain", "QMAILPLUSDOMAIN")}


def make_case(rng, fields, mode="h", args=(), envcfg=None, ctl=None, fsnd=None, flags="", other=None, rnd=None, decoys=True):
    """Render one message.  envcfg / ctl: {"dh"|"dd"|"pd": subs} given by environment / control file."""
    rnd = rnd or U.Renderer(rng)
    envcfg, ctl = envcfg or {}, ctl or {}
    lines = [rnd.field(f) for f in fields]
    extra = []
    if decoys:
        extra = [rng.choice([b"Subject: To: nobody@decoy.test, Bcc: hidden\n", b"X-To: xto@decoy.test\n", b"Subject: hello\n",
                             b"From: Some One <someone@from.test>\n", b"Reply-To: <rt@reply.test>\n", b"Comments: Cc: c@decoy.test\n"])
                 for _ in range(rng.randint(0, 2))]
    if other:
        extra.append({"from": b"Resent-From: rf@resent.test\n", "date": b"Resent-Date: 26 Sep 2026 00:00:00 -0000\n",
                      "msgid": b"Resent-Message-ID: <1.2@resent.test>\n", "sender": b"Resent-Sender: rs@resent.test\n"}[other])
    allf = lines + extra
    rng.shuffle(allf)
    body = rng.choice([b"", b"\n", b"\nbody\n", b"\nTo: body@decoy.test\nBcc: body2@decoy.test\n\nCc: body3@decoy.test\n"]) if decoys else b"\n"
    msg = b"".join(allf) + body
    argv = {"a": ["-a"], "h": ["-h"], "H": ["-H"], "A": []}[mode]
    if fsnd is not None:
        argv = argv + ["-f", U.arg_text(fsnd)]
    argv = argv + ["--"] + [U.arg_text(a) for a in args]
    envx = {}
    for k, subs in envcfg.items():
        envx[CTL_NAMES[k][1]] = U.dom_text(subs).decode()
    if flags:
        envx["QMAILINJECT"] = flags
    cfg = {k: envcfg.get(k) or ctl.get(k) or U.ME for k in ("dh", "dd", "pd")}
    return {"kind": "h", "fields": fields, "mode": mode, "args": [dict(a) for a in args], "cfg": cfg, "envx": envx,
            "ctl": {k: U.dom_text(v).decode() for k, v in ctl.items()}, "fsnd": fsnd, "flags": flags, "other": 1 if other else 0,
            "msg": list(msg), "argv": [list(x.encode("latin1") if isinstance(x, str) else x) for x in argv]}


def set_control(tree, ctl):
    for k, (fn, _) in CTL_NAMES.items():
        p = os.path.join(tree.root, "control", fn)
        if k in ctl:
            with open(p, "w") as f:
                f.write(ctl[k] + "\n")
        elif os.path.exists(p):
            os.unlink(p)


def run_h_cases(tree, qq, cases, tagp):
    """Run pass 1 (the case) and pass 2 (its output through -h) for every case; returns TLC records."""
    recs = [None] * len(cases)
    groups = {}
    for i, c in enumerate(cases):
        groups.setdefault(json.dumps(c["ctl"], sort_keys=True), []).append(i)
    for key, idxs in sorted(groups.items()):
        set_control(tree, json.loads(key))

        def run(i):
            c = cases[i]
            argv = [bytes(x) for x in c["argv"]]
            rc, _ = U.run_inject(tree, qq, "%sa%d" % (tagp, i), argv, bytes(c["msg"]), c["envx"])
            return rc
        rcs = sessions.pmap(run, idxs)
        got = qq.collect()
        first = {}
        for i, rc in zip(idxs, rcs):
            q = got.get("%sa%d" % (tagp, i), [])
            first[i] = (rc, q[0] if q else None)

        def run2(i):
            rc, q = first[i]
            if rc != 0 or q is None:
                return None
            envx = {k: v for k, v in cases[i]["envx"].items() if k != "QMAILINJECT"}
            rc2, _ = U.run_inject(tree, qq, "%sb%d" % (tagp, i), ["-h"], q["msg"], envx)
            return rc2
        rc2s = sessions.pmap(run2, idxs)
        got2 = qq.collect()
        for i, rc2 in zip(idxs, rc2s):
            c = cases[i]
            rc, q = first[i]
            snd, env, nbcc, out1 = None, [], 0, b""
            if q is not None:
                snd, env, complete = sessions.parse_envelope(q["env"])
                out1 = q["msg"]
                nbcc = len([n for n in U.header_field_names(out1) if n in (b"bcc", b"resent-bcc")])
                if not complete and rc == 0:
                    rc = -2
            elif rc == 0:
                rc = -1
            q2 = got2.get("%sb%d" % (tagp, i), [])
            has2, env2 = 0, []
            if rc2 is not None:
                has2 = 1
                if q2:
                    env2 = sessions.parse_envelope(q2[0]["env"])[1]
                elif rc2 == 0:
                    rc2 = -1
            recs[i] = {"k": "h", "mode": c["mode"], "fields": U.abstract_of(c["fields"]), "other": c["other"],
                       "args": [{"lp": a["lp"], "dom": a["dom"]} for a in c["args"]], "cfg": c["cfg"],
                       "hasf": 1 if c["fsnd"] else 0, "fsnd": c["fsnd"] or {"lp": [], "dom": []}, "flagr": 1 if "r" in c["flags"] else 0,
                       "rc": rc, "env": [list(x) for x in env], "snd": B(snd), "nbcc": nbcc,
                       "has2": has2, "rc2": rc2 if rc2 is not None else 0, "env2": [list(x) for x in env2]}
            c["out1"] = out1.decode("latin1")
    set_control(tree, {})
    return recs


def enum_cases(rng, ncfg):
    """Every single-mailbox list of the shape menu of spec/AddrList.tla (a few more word and host kinds),
    one comment forced into each slot the form has, in a To field, strategy -h."""
    lps = [([b"x"], [0]), ([b"x", b"y"], [0, 0]), ([b"a b"], [1]), ([b"x", b"@"], [0, 1]), ([b"p+"], [0]), ([b""], [1]), ([b"x"], [1]),
           ([b"a\"b\\c\rd"], [1])]
    doms = ["none", "nodot", "dotted", "plus", "plusdot", "literal"]
    cases = []
    n = 0
    for (lp, q), dk in itertools.product(lps, doms):
        shapes = [("b", [], 0, s) for s in (None, "pre", "in", "post")]
        shapes += [("n", ph, rt, s) for ph in ([], [b"Fred"], [b"Fred", b"J. Q"]) for rt in (0, 1, 2)
                   for s in (None, "phr", "open", "in", "close")]
        for form, ph, rt, slot in shapes:
            for _ in range(ncfg):
                cfg = U.CFGS[n % len(U.CFGS)]
                n += 1
                m = {"lp": [list(w) for w in lp], "q": list(q), "dom": U.gen_domain(rng, dk), "f": form, "ph": [list(w) for w in ph],
                     "rt": [U.gen_domain(rng, rng.choice(["nodot", "dotted", "literal"])) for _ in range(rt)]}
                if slot == "in" and form == "b" and not m["dom"] and len(lp) == 1:
                    continue                      # a bare lone word has no inner gap
                rnd = U.Renderer(rng, pcomment=0, pedge=0, pws=0.3, force=[slot] if slot else [])
                cases.append(make_case(rng, [{"name": "to", "items": [{"k": "m", "m": m, "sep": "c"}]}], envcfg=cfg, rnd=rnd, decoys=False))
    return cases


def random_cases(rng, n, ctl):
    cases = []
    names = ["to", "to", "cc", "cc", "bcc", "bcc", "ato", "rto", "rcc", "rbcc"]
    for _ in range(n):
        nf = rng.choice([1, 1, 2, 2, 3, 4])
        fields = [{"name": rng.choice(names), "items": U.gen_items(rng)} for _ in range(nf)]
        mode = rng.choice(["a", "h", "h", "H", "A", "A"])
        args = []
        if mode in ("a", "H") or rng.random() < 0.4:
            for _ in range(rng.randint(0 if mode == "A" else 1, 3)):
                lp = rng.choice([list(U.gen_atom(rng)), list(rng.choice(U.QWORDS)) or [120], [rng.choice(U.CLASSES_FULL) for _ in range(rng.randint(1, 4))]])
                dom = U.gen_domain(rng)
                if not dom and (64 in lp):
                    dom = U.gen_domain(rng, "dotted")          # without a host the last '@' of the argument would be read as one
                if lp[0] == 45 and False:
                    pass
                args.append({"lp": lp, "dom": dom})
        envcfg = {}
        base = rng.choice(U.CFGS)
        for k in ("dh", "dd", "pd"):
            if rng.random() < (0.35 if ctl else 0.75):
                envcfg[k] = base[k]
        fsnd = None
        if rng.random() < 0.3:
            fsnd = {"lp": rng.choice([list(U.gen_atom(rng)), list(b"a b"), list(b"s@t")]), "dom": U.gen_domain(rng, rng.choice(["nodot", "dotted", "plus", "literal"]))}
        flags = "".join(f for f in "csfirm" if rng.random() < 0.25)
        other = rng.choice([None, None, None, None, "from", "date", "msgid", "sender"])
        cases.append(make_case(rng, fields, mode=mode, args=args, envcfg=envcfg, ctl=ctl, fsnd=fsnd, flags=flags, other=other))
    return cases


def mode_flag_cases(rng):
    """Every strategy x with/without -f x every subset of the QMAILINJECT letters, each on a small random message."""
    cases = []
    letters = "csfirm"
    for mode in ("a", "h", "H", "A"):
        for withf in (0, 1):
            for bits in range(64):
                flags = "".join(l for k, l in enumerate(letters) if bits >> k & 1)
                fields = [{"name": n, "items": U.gen_items(rng, 2)} for n in rng.sample(["to", "cc", "bcc", "ato", "rto", "rbcc"], rng.randint(1, 3))]
                args = [{"lp": list(U.gen_atom(rng)), "dom": U.gen_domain(rng)} for _ in range(rng.randint(0 if mode in ("A", "h") else 1, 2))]
                fsnd = {"lp": list(U.gen_atom(rng)), "dom": U.gen_domain(rng, rng.choice(["none", "nodot", "dotted", "plus"]))} if withf else None
                cases.append(make_case(rng, fields, mode=mode, args=args, envcfg=rng.choice(U.CFGS), fsnd=fsnd, flags=flags,
                                       other=rng.choice([None, None, "date"])))
    return cases


def all_mailboxes(case):
    for f in case["fields"]:
        for it in f["items"]:
            for m in ([it["m"]] if it["k"] == "m" else it["ms"]):
                yield f, m


def single_case(case, f, m):
    """The same configuration, one To field holding just this mailbox exactly as it was written."""
    fields = [{"name": "to", "items": [{"k": "m", "m": m, "sep": "c"}]}]
    msg = b"To: " + m["txt"].encode("latin1") + b"\n\n"
    c = dict(case)
    c.update({"fields": fields, "mode": "h", "args": [], "fsnd": None, "flags": "", "other": 0, "msg": list(msg),
              "argv": [list(b"-h")], "envx": {k: v for k, v in case["envx"].items() if k != "QMAILINJECT"}})
    return c


def printable(b, n=70):
    return "".join(chr(c) if 33 <= c < 127 and c != 92 else (" " if c == 32 else "\\x%02x" % c) for c in b[:n])


def validate(ck, recs, tag, per_file, chunk=400, parallel=4):
    """TLC judges the records: several validator runs side by side (deserialisation is single threaded)."""
    import threading
    t0 = time.time()
    parts = chunks(recs, per_file) or [[]]
    out = [None] * len(parts)
    sem = threading.Semaphore(parallel)

    def work(k):
        with sem:
            try:
                f = ck.scratch.path("%s-%d.ndjson" % (tag, k))
                write_ndjson(f, parts[k])
                out[k] = tlc_validate_records("AddrRec", "AddrRec.cfg", f, len(parts[k]), chunk=chunk, heap="4g",
                                              workers=max(2, NCPU // min(parallel, len(parts))), timeout=1500)
            except Exception as e:
                out[k] = e
    ths = [threading.Thread(target=work, args=(k,)) for k in range(len(parts))]
    for t in ths:
        t.start()
    for t in ths:
        t.join()
    bad = []
    tot = TlcResult()
    for k, o in enumerate(out):
        if isinstance(o, Exception):
            raise o if isinstance(o, Infra) else Infra("record validation: %r" % o)
        b, res = o
        bad += [(i + k * per_file, why) for i, why in b]
        tot.distinct += res.distinct
        tot.generated += res.generated
    tot.wall = time.time() - t0
    ck.add_tlc("AddrRec(%s, %d records in %d files)" % (tag, len(recs), len(parts)), tot)
    return bad, tot.wall


# ------------------------------------------------------------------------------------------------
def main():
    ap = argparse.ArgumentParser()
    ap.add_argument("--tier", default=os.environ.get("VERIF_TIER", "quick"))
    ap.add_argument("--replay")
    a = ap.parse_args()
    ck = Check("C17", a.tier)
    thorough = a.tier == "thorough"
    rng = ck.rng

    # ---- 1. the models (started now, joined before the verdict; they do not depend on the code)
    models = []
    if not a.replay:
        import threading
        qlen = 5 if thorough else 4
        mf = 3 if thorough else 2
        lcfg = ("SPECIFICATION Spec\nCONSTANTS\n W1 = %d\n W2 = %d\n MaxItems = %d\n PendingExcluded = %s\nINVARIANT Rendered\nINVARIANT Parses\n"
                "INVARIANT EnvelopeListed\nINVARIANT RewrittenSame\n")
        pe = "TRUE" if MODEL_EXCLUDES_PENDING_SHAPES else "FALSE"
        specs = [("AddrQuote", "AddrQuote(21 classes, MaxLen=%d)" % qlen,
                  "SPECIFICATION Spec\nCONSTANTS\n Alphabet = {%s}\n MaxLen = %d\nINVARIANT Hdr822RoundTrip\nINVARIANT Hdr822IsRfc\n"
                  "INVARIANT Smtp821RoundTrip\nINVARIANT Smtp821IsRfc\nINVARIANT RfcReadersAgree\n" % (", ".join(map(str, U.CLASSES_FULL)), qlen), 6),
                 ("AddrList", "AddrList(W1=6,W2=1,MaxItems=2)", lcfg % (6, 1, 2, pe), 6 if thorough else 8),
                 ("AddrInject", "AddrInject(MaxFields=%d)" % mf,
                  "SPECIFICATION Spec\nCONSTANTS\n MaxFields = %d\nINVARIANT EnvelopeListed\nINVARIANT BccRemoved\nINVARIANT OthersKept\n" % mf, 3)]
        if thorough:
            specs.append(("AddrList", "AddrList(W1=1,W2=0,MaxItems=4)", lcfg % (1, 0, 4, pe), 5))
        for k, (mod, name, text, nw) in enumerate(specs):
            cfg = ck.scratch.path("%s%d.cfg" % (mod, k))
            with open(cfg, "w") as f:
                f.write(text)
            box = {}

            def runm(mod=mod, cfg=cfg, nw=nw, box=box):
                try:
                    box["res"] = tlc(mod, cfg, workers=nw, timeout=3000, heap="6g", metadir=cfg + ".meta")
                except Exception as e:                      # reported when joined
                    box["exc"] = e
            th = threading.Thread(target=runm)
            th.start()
            models.append((mod, name, th, box))

    def join_models():
        for mod, name, th, box in models:
            th.join()
            if "exc" in box:
                raise Infra("%s model: %s" % (mod, box["exc"]))
            res = need_ok(box["res"], mod + " model")
            ck.add_tlc(name, res)
            if res.violated:
                ck.model_violation(mod, res)

    # ---- 2. the code
    tree = build_tree(ck.scratch, split=3)
    log("C17: tree built %.1fs" % (time.time() - ck.t0))
    qq = sessions.QQDir(ck.scratch.path("qq"))
    recs, cases_of = [], {}

    if a.replay:
        case = json.load(open(a.replay))["case"]
        if case["kind"] == "q":
            lps = [case["lp"]]
            sr, extra = qs_records(ck, tree, qq, lps, nworkers=1)
            r = {"k": "q", "lp": list(lps[0]), "host": list(HOST), "aback": qa_records(tree, qq, lps)[0]}
            r.update(sr[0])
            r.update(qh_records(tree, qq, lps)[0])
            recs += [r] + extra
        else:
            hc = [case]
            hrecs = run_h_cases(tree, qq, hc, "r")
            for r, c in zip(hrecs, hc):
                cases_of[len(recs)] = c
                recs.append(r)
    else:
        full_len, core_len, qh_len = (4, 5, 3) if thorough else (3, 4, 2)
        lps = U.enum_locals(U.CLASSES_FULL, full_len)
        lps += U.enum_locals(U.CLASSES_CORE12 if thorough else U.CLASSES_CORE, core_len, minlen=full_len + 1)
        lps += U.random_locals(rng, 2000 if thorough else 500)
        ck.cov["local_parts_enumerated"] = len(lps)
        t0 = time.time()
        ab = qa_records(tree, qq, lps)
        log("C17: qa %d addresses %.1fs" % (len(ab), time.time() - t0)); t0 = time.time()
        sr, extra = qs_records(ck, tree, qq, lps)
        log("C17: qs done %.1fs" % (time.time() - t0)); t0 = time.time()
        nh = len(U.enum_locals(U.CLASSES_FULL, qh_len))
        hsel = list(range(nh)) + rng.sample(range(nh, len(lps)), 3000 if thorough else 1500)
        hr = dict(zip(hsel, qh_records(tree, qq, [lps[i] for i in hsel])))
        log("C17: qh done, %d addresses %.1fs" % (len(hsel), time.time() - t0)); t0 = time.time()
        for i, lp in enumerate(lps):
            r = {"k": "q", "lp": list(lp), "host": list(HOST), "aback": ab[i], "hh": 0, "hq": [-1], "b1": [-1], "b2": [-1], "snd": [-1]}
            r.update(sr[i])
            r.update(hr.get(i, {}))
            recs.append(r)
        recs += extra
        ck.cov["header_form_round_trips"] = len([1 for r in hr.values() if r["hh"]])
        if hsel and not ck.cov["header_form_round_trips"]:
            log("C17: qmail-inject -n prints no Return-Path field: header form not observable, QhVerdict not exercised")
        hc = enum_cases(rng, 4 if thorough else 1) + mode_flag_cases(rng)
        nrand = 12000 if thorough else 3600
        hc += random_cases(rng, nrand // 2, None)
        for ctl in U.CFGS[1:]:
            hc += random_cases(rng, nrand // 6, ctl)
        hrecs = run_h_cases(tree, qq, hc, "h")
        for r, c in zip(hrecs, hc):
            cases_of[len(recs)] = c
            recs.append(r)
        ck.cov["header_cases"] = len(hc)
        log("C17: h done, %d cases %.1fs" % (len(hc), time.time() - t0))

    join_models()
    log("C17: models joined %.1fs" % (time.time() - ck.t0))
    # ---- 3. TLC judges every record
    bad, vwall = validate(ck, recs, "c17", per_file=30000 if thorough else 12000)
    log("C17: validated %d records in %.1fs" % (len(recs), vwall))
    ck.cov["traces_validated_against_impl"] = len(recs)
    for i, r in enumerate(recs):
        if r["k"] == "h":
            c = cases_of[i]
            ck.count(("h", bytes(c["msg"]), tuple(map(bytes, c["argv"])), tuple(sorted(c["envx"].items())), tuple(sorted(c["ctl"].items()))),
                     nontrivial=any(True for _ in all_mailboxes(c)))
        else:
            ck.count((r["k"], tuple(r["lp"])), nontrivial=any(ch not in U.ATOMCH for ch in r["lp"]))
    hs = [i for i in sorted(cases_of)]
    for i in hs[5:6] + hs[len(hs) // 2:len(hs) // 2 + 2]:
        c = cases_of[i]
        ck.sample({"message": printable(c["msg"], 300), "argv": [printable(x) for x in c["argv"]], "env": c["envx"], "control": c["ctl"],
                   "envelope": [printable(x) for x in recs[i]["env"]], "second_pass": [printable(x) for x in recs[i]["env2"]]})
    for r in [x for x in recs if x["k"] == "q" and x.get("hh")][300:302] + [x for x in recs if x["k"] == "q"][-3:-2]:
        ck.sample({k: (printable(v) if isinstance(v, list) else v) for k, v in r.items()})

    # ---- 4. witnesses
    pending = {}

    def report(key, desc, case):
        for rx in PENDING_FINDINGS:
            if re.fullmatch(rx, key):
                pending.setdefault(rx, []).append(key)
                return
        ck.violation(key, desc, case)

    best = {}
    hbad = []
    for idx, why in bad:
        r = recs[idx - 1]
        why = why.strip('"')
        if r["k"] == "h":
            hbad.append((idx - 1, why))
        else:
            kk = (why, "mail" if r["k"] == "qm" else "")
            if kk not in best or len(r["lp"]) < len(best[kk]["lp"]):
                best[kk] = r
    for (why, verb), r in sorted(best.items()):
        key = "%s:%slp=%s" % (why, (verb + ":") if verb else "", ",".join(map(str, r["lp"][:24])))
        obs = {k: (printable(v) if isinstance(v, list) else v) for k, v in r.items() if k not in ("k", "lp", "host")}
        report(key, "local part %s (%r): %s" % (r["lp"][:24], printable(r["lp"]), obs), {"kind": "q", "lp": r["lp"]})

    # header cases: attribute a failing case to single mailboxes by re-running each mailbox alone
    if hbad:
        attributable = [(i, why) for i, why in hbad if why in ("EnvelopeIsNotTheListedMailboxes", "RewrittenHeaderParsesDifferently", "ValidListRefused")]
        singles, owner = [], []
        explained = set()
        seen = set()

        def report_mailbox(why, c, r, m):
            shape = U.mailbox_shape(m)
            if (why, shape) in seen:
                return
            seen.add((why, shape))
            key = "%s:mailbox %s;text=%s" % (why, shape, printable(m["txt"].encode("latin1")).replace(" ", "_"))
            desc = "To: %s with %s -> envelope %s, second pass %s (expected %s)" % (
                printable(m["txt"].encode("latin1")), {k: printable(U.dom_text(v)) for k, v in c["cfg"].items()},
                [printable(x) for x in r["env"]], [printable(x) for x in r["env2"]],
                printable(b".".join(bytes(w) for w in m["lp"])) + "@<rewritten host>")
            report(key, desc, c)
        nshrunk = 0
        for i, why in attributable:
            c = cases_of[i]
            mbs = list(all_mailboxes(c))
            if (len(mbs) == 1 and len(c["fields"]) == 1 and c["mode"] == "h" and not c["args"] and c["fields"][0]["name"] in ("to", "cc")
                    and not c["other"] and not c["fsnd"]):
                report_mailbox(why, c, recs[i], mbs[0][1])          # already minimal
                explained.add(i)
            elif nshrunk < 300:
                nshrunk += 1
                for f, m in mbs:
                    singles.append(single_case(c, f, m))
                    owner.append(i)
        if singles:
            srecs = run_h_cases(tree, qq, singles, "s")
            sbad, _ = validate(ck, srecs, "c17s", per_file=100000, chunk=50)
            for sidx, why in sbad:
                explained.add(owner[sidx - 1])
                c = singles[sidx - 1]
                report_mailbox(why.strip('"'), c, srecs[sidx - 1], c["fields"][0]["items"][0]["m"])
        worst = {}
        for i, why in hbad:
            if i in explained:
                continue
            if why not in worst or len(cases_of[i]["msg"]) < len(cases_of[worst[why]]["msg"]):
                worst[why] = i
        for why, i in sorted(worst.items()):
            c, r = cases_of[i], recs[i]
            key = "%s:case mode=%s;fields=%s;msg=%s" % (why, c["mode"], "+".join(f["name"] for f in c["fields"]), printable(c["msg"], 120).replace(" ", "_"))
            report(key, "argv %s env %s control %s: rc=%s envelope %s sender %s bcc fields left %s; second pass rc=%s %s" % (
                [printable(x) for x in c["argv"]], c["envx"], c["ctl"], r["rc"], [printable(x) for x in r["env"]], printable(r["snd"]), r["nbcc"],
                r["rc2"], [printable(x) for x in r["env2"]]), c)

    for rx, keys in pending.items():
        print("PENDING-FINDING property=C17 witnesses=%d e.g. %s" % (len(keys), keys[0]))
    ck.cov["pending_findings"] = {rx: len(keys) for rx, keys in pending.items()}
    ck.cov["rule"] = ("quoting: every local part over 21 byte classes (atom, '+', '.', '@', SP, '\"', '\\', CR, TAB, ( ) < > , : ; [ ], 8-bit, DEL, ^A) "
                      "up to length %s and over 13 core classes up to length %s plus seeded random ones up to 120 bytes, each through qmail-inject -a (qa), "
                      "qmail-remote -> qmail-smtpd (qs), a subset through qmail-inject -n -f and back (qh); header: every single-mailbox shape of the model's "
                      "menu with a comment forced into each slot plus seeded random multi-field messages; non-trivial = local part has a byte outside the "
                      "atom characters / message lists at least one mailbox; distinct by (path, local part) / (message, argv, configuration)"
                      % ((4, 5) if thorough else (3, 4)))
    ck.cov["exhaustive"] = True
    ck.assumptions += ["the QMAILQUEUE stand-in records descriptor 0/1 faithfully; the scripted SMTP server records command lines faithfully",
                       "the renderer lib/c17_util.py (abstract list -> header bytes) is trusted: the expected mailboxes come from the abstract list",
                       "restrictions of the domain: no NUL/LF in local parts; empty local part not on the SMTP path (addresses(5)); addresses <= 130 bytes "
                       "(limits are not part of the statement); domain literals are dotted-decimal without quoted-pairs; quoted-pairs only inside quoted-strings "
                       "and comments; folding only between lexical tokens; a comma is left out only between two bare addr-specs; no '<>' recipient; "
                       "host names are well formed (no leading/trailing/double dots); -f with QMAILINJECT=r may or may not carry the VERP suffix"]
    ck.finish()


if __name__ == "__main__":
    main_wrapper(main)
