#!/usr/bin/env python3
"""C13 Delivery instructions are interpreted as documented and loops are cut.

  model   spec/DotQmailP.tla (P: transcription of qmail-local.c main(): checkhome, Delivered-To /
          Return-Path lines with quote.c, bouncexf, qmesearch / qmeexists, -owner, the instruction
          loop over the raw bytes, forwarding) x an environment supplying every case of three
          exhaustive slices (which file / which instructions / unsafe homes, loops, hostile
          addresses); invariants Conforms (= monitor Judge of spec/DotQmail.tla, written from
          dot-qmail(5), qmail-command(8), qmail-local(8)) and SearchAgrees; a fourth slice of
          hand-computed vectors checks P's results and that the monitor rejects falsified observations
  impl    the real qmail-local binary, run as an unprivileged uid in generated home directories
          (.qmail files of every kind and mode, decoys, directories, FIFOs, symbolic links), with -n
          (printed plan) and for real: program lines are probes that log themselves together with a
          snapshot of all delivery targets (so the order of instructions is observable), mbox and
          maildir targets inside the home, forwards through QMAILQUEUE = probe + recording stand-in
  verdict TLC evaluates Judge on every record (spec/DotQmailRec.tla)
"""
import sys, os, json, argparse, shutil, subprocess, re, itertools
sys.path.insert(0, os.path.join(os.path.dirname(os.path.abspath(__file__)), "..", "lib"))
from vlib import *
import sessions

# Violations of the statement by the unchanged tree that are reported and awaiting a decision:
# regexes on the witness key.  A matching violation is printed as PENDING-FINDING and does not fail the run.
PENDING_FINDINGS = []

UID = GID = 7301
PROBE = os.path.join(BUILD, "standin_c13probe")
RUNAS = os.path.join(BUILD, "standin_c13run")      # drops to UID/GID, then executes qmail-local
PROBE_NAME = b"standin_c13probe"
H = b"@H@"                       # stands for the home directory inside templates
MSG0 = b"Subject: t\nX-A: b\n\nbody line\n.\n"


# --------------------------------------------------------------------------
# building cases
# --------------------------------------------------------------------------
class CB:
    """Collects what the lines of one case refer to: delivery slots, target spellings, probe programs."""
    def __init__(self):
        self.slots = []          # (relative name, 'f' | 'd')
        self.tgts = {}           # stripped line -> (slot index or 0, what)
        self.progs = []          # (command text, id, exit)

    def slot(self, name, kind):
        for i, (n, k) in enumerate(self.slots):
            if n == name:
                return i + 1
        self.slots.append((name, kind))
        return len(self.slots)

    def mbox(self, name=b"mb1", absolute=False, ws=b""):
        p = (H + b"/" if absolute else b"./") + name
        self.tgts[p] = (self.slot(name, "f"), "file")
        return p + ws

    def maildir(self, name=b"md1", absolute=False, ws=b""):
        p = (H + b"/" if absolute else b"./") + name + b"/"
        self.tgts[p] = (self.slot(name, "d"), "maildir")
        return p + ws

    def mbox_on_maildir(self, name=b"md1"):      # no trailing slash: an mbox line naming a directory
        p = b"./" + name
        self.tgts[p] = (self.slot(name, "d"), "maildir")
        return p

    def maildir_on_file(self, name=b"mb1"):      # trailing slash: a maildir line naming a (future) file
        p = b"./" + name + b"/"
        self.tgts[p] = (self.slot(name, "f"), "file")
        return p

    def nodir(self, md=False):
        p = b"./nodir/m" + (b"/" if md else b"")
        self.tgts[p] = (0, "nodir")
        return p

    def prog(self, ex, form=0, ws=b""):
        i = len(self.progs) + 1
        if ex == -1:
            cmd = b"%s %d; kill -9 $$" % (PROBE_NAME, i)
        elif form == 1:
            cmd = b"%s %d; exit %d" % (PROBE_NAME, i, ex)
        elif form == 2:
            cmd = b"%s %d && exit %d # |x" % (PROBE_NAME, i, ex)
        elif form == 3:
            cmd = b"exec %s %d %d" % (PROBE_NAME, i, ex)
        elif form == 4:
            cmd = b" %s  %d %d" % (PROBE_NAME, i, ex)
        else:
            cmd = b"%s %d %d" % (PROBE_NAME, i, ex)
        self.progs.append((cmd, i, ex))
        return b"|" + cmd + ws


def mkcase(cb, tag, files, n=0, hmode=0o755, dash=b"", ext=b"", local=None, host=b"h.test", sender=b"s@s.test",
           dflt=None, msg=MSG0, outside=()):
    if dflt is None:
        dflt = cb.mbox(b"mbD")
    return {"tag": tag, "n": n, "hmode": hmode, "files": files, "dash": dash, "ext": ext,
            "local": (b"u" + dash + ext) if local is None else local, "host": host, "sender": sender, "dflt": dflt,
            "msg": msg, "progs": list(cb.progs), "tgts": [(p, ix, w) for p, (ix, w) in cb.tgts.items()],
            "slots": list(cb.slots), "outside": list(outside)}


def F(nm, body=b"", mode=0o600, kind="reg", via=""):
    return {"nm": nm, "kind": kind, "mode": mode, "body": body, "via": via}


def enc_case(c):
    def e(v):
        if isinstance(v, bytes):
            return {"hex": v.hex()}
        if isinstance(v, (list, tuple)):
            return [e(x) for x in v]
        if isinstance(v, dict):
            return {k: e(x) for k, x in v.items()}
        return v
    return e(c)


def dec_case(j):
    def d(v):
        if isinstance(v, dict) and set(v) == {"hex"}:
            return bytes.fromhex(v["hex"])
        if isinstance(v, list):
            return [d(x) for x in v]
        if isinstance(v, dict):
            return {k: d(x) for k, x in v.items()}
        return v
    c = d(j)
    for k in ("progs", "tgts", "slots", "outside"):
        c[k] = [tuple(x) for x in c[k]]
    return c


# ---- which file -----------------------------------------------------------
def candidates(dash, ext):
    """Generator heuristic only (aims the homes at the names that matter); the verdict never uses it."""
    sx = bytes((c + 32 if 65 <= c <= 90 else c) for c in ext).replace(b".", b":")
    out = [b".qmail" + dash + sx]
    for i in range(len(sx), -1, -1):
        if i == 0 or sx[i - 1:i] == b"-":
            nm = b".qmail" + dash + sx[:i] + b"default"
            if nm not in out:
                out.append(nm)
    return out


SEARCH_POOL = [b".qmail", b".qmail-", b".qmail-a", b".qmail-a-default", b".qmail-default", b".qmail-a-b", b".qmail-a-b-default",
               b".qmail-a-b-c", b".qmail-a:b", b".qmail-a-", b".qmail--", b".qmail--default", b".qmail-x", b".qmail-z", b".qmail-@[`{"]
DECOYS = [b".qmail-A", b".qmail-a.b", b".qmail-A-default", b".qmail-a-B", b".qmail-DEFAULT", b".qmail-a-b-C", b".qmail-A-B",
          b".qmail-a-bdefault", b".qmail-adefault", b".qmaila", b".qmail-a-b-c-default-x", b".qmail-Z"]
EXTS = [(b"", b""), (b"-", b""), (b"-", b"a"), (b"-", b"a-b"), (b"-", b"a-b-c"), (b"-", b"A"), (b"-", b"A-B"), (b"-", b"a.b"),
        (b"-", b"a/b"), (b"-", b"a-"), (b"-", b"-"), (b"-", b"a--b"), (b"-", b"x"), (b"-", b"y"), (b"-", b"a-b-"), (b"-", b"default"),
        (b"-", b"a-default"), (b"-", b"d/e"), (b"-", b"d/../../out"), (b"-", b"../out"), (b"-", b"a-b-c-d-e"), (b"-", b"a-B.c"),
        (b"-", b"a b"), (b"-", b"a\nb"), (b"-", b"Z"), (b"-", b"@[`{")]
KINDS = ["absent"] * 8 + ["r600"] * 5 + ["r644", "r602", "r622", "r700", "r620", "dir", "fifo", "symlink"]


def home_file(cb, nm, kind):
    """A .qmail file whose single instruction delivers to a slot of its own, so the choice is visible."""
    body = cb.mbox(b"mb_" + nm[6:].replace(b"/", b"%").replace(b".", b"_dot_").replace(b":", b"_col_") + b"_")
    body += b"\n"
    if kind == "dir":
        return F(nm, kind="dir", mode=0o755)
    if kind == "fifo":
        return F(nm, kind="fifo", mode=0o600)
    if kind == "symlink":
        return F(nm, body, 0o600, via="symlink")
    return F(nm, body, int(kind[1:], 8))


def search_cases(rng, nrandom, n_every):
    out = []
    for (dash, ext) in EXTS:
        cs = candidates(dash, ext)
        extra = []
        if ext.startswith(b"d/") or b"out" in ext:
            extra = [(b".qmail-d", "dir")]
        # every subset of the candidate names, decoys always around
        for bits in itertools.product([0, 1], repeat=len(cs)):
            kinds_first = ["r600"]
            if sum(bits) >= 2 or (sum(bits) == 1 and len(cs) <= 2):
                kinds_first = ["r600", "dir", "r602", "fifo", "r700", "symlink"]
            for kf in kinds_first:
                cb = CB()
                files, first = [], True
                for nm, b in zip(cs, bits):
                    if not b or b"\n" in nm:
                        continue
                    if b"/" in nm and nm != b".qmail-d/e":
                        continue                      # would need a directory in the way of another name
                    files.append(home_file(cb, nm, kf if first else "r600"))
                    first = False
                names = {f["nm"] for f in files}
                for nm, kd in extra:
                    if nm not in names:
                        files.insert(0, home_file(cb, nm, kd))
                        names.add(nm)
                for nm in DECOYS:
                    if nm not in names:
                        files.append(home_file(cb, nm, "r600"))
                outside = [(b"out", cb.mbox(b"mb_outside") + b"\n")]
                out.append(mkcase(cb, "search", files, n=(1 if len(out) % n_every == 0 else 0), dash=dash, ext=ext, outside=outside))
        # random homes over the whole pool
        for _ in range(nrandom):
            cb = CB()
            files = []
            for nm in SEARCH_POOL + DECOYS:
                k = rng.choice(KINDS)
                if k != "absent":
                    files.append(home_file(cb, nm, k))
            names = {f["nm"] for f in files}
            if b".qmail-d" not in names and rng.random() < 0.5:
                files.append(home_file(cb, b".qmail-d", "dir"))
                if rng.random() < 0.7:
                    files.append(home_file(cb, b".qmail-d/e", "r600"))
            outside = [(b"out", cb.mbox(b"mb_outside") + b"\n")]
            out.append(mkcase(cb, "search-rnd", files, n=rng.choice([0, 0, 0, 1]), dash=dash, ext=ext, outside=outside,
                              hmode=rng.choice([0o755, 0o755, 0o700, 0o775])))
    return out


# ---- which instructions ---------------------------------------------------
LINE_FORMS = [
    ("comment",   lambda cb, r: b"# a comment"),
    ("comment2",  lambda cb, r: b"#|exit 100"),
    ("blank",     lambda cb, r: b""),
    ("blankws",   lambda cb, r: b" \t"),
    ("p0",        lambda cb, r: cb.prog(0, r.choice([0, 1, 3]))),
    ("p0ws",      lambda cb, r: cb.prog(0, 4, b" \t ")),
    ("p99",       lambda cb, r: cb.prog(99, r.choice([0, 1, 2]))),
    ("p100",      lambda cb, r: cb.prog(100, r.choice([0, 1, 2]))),
    ("p111",      lambda cb, r: cb.prog(111, r.choice([0, 1]))),
    ("phard",     lambda cb, r: cb.prog(r.choice([64, 65, 70, 76, 77, 78, 112]), r.choice([0, 1]))),
    ("psoft",     lambda cb, r: cb.prog(r.choice([1, 2, 63, 66, 75, 98, 101, 110, 113, 126, 255]), r.choice([0, 1]))),
    ("pcrash",    lambda cb, r: cb.prog(-1)),
    ("mbox",      lambda cb, r: cb.mbox(b"mb1")),
    ("mboxabs",   lambda cb, r: cb.mbox(b"mb2", True, b" ")),
    ("mboxsp",    lambda cb, r: cb.mbox(b"mb 3", False, b"\t")),
    ("maildir",   lambda cb, r: cb.maildir(b"md1")),
    ("maildirab", lambda cb, r: cb.maildir(b"md2", True, b"  ")),
    ("fwdamp",    lambda cb, r: b"&fa@x.test"),
    ("fwdbare",   lambda cb, r: b"fb@y.test \t"),
    ("fwdnum",    lambda cb, r: b"9c@z.test"),
    ("fwdampodd", lambda cb, r: b"&-|/.#@w.test"),
    ("list",      lambda cb, r: b"+list"),
    ("listws",    lambda cb, r: b"+list \t"),
    ("mboxondir", lambda cb, r: cb.mbox_on_maildir(b"md1")),
    ("mdonfile",  lambda cb, r: cb.maildir_on_file(b"mb1")),
    ("nodir",     lambda cb, r: cb.nodir(r.random() < 0.5)),
]
CORE = ["comment", "blank", "blankws", "p0", "p99", "p100", "p111", "phard", "psoft", "mbox", "mboxabs", "maildir", "fwdamp",
        "fwdbare", "list", "mboxondir", "nodir", "pcrash"]
FORM = dict(LINE_FORMS)


def body_case(rng, names, mode, n, tag="interp", last_nl=True, **kw):
    cb = CB()
    lines = [FORM[x](cb, rng) for x in names]
    body = b"\n".join(lines) + (b"\n" if last_nl else b"")
    return mkcase(cb, tag, [F(b".qmail", body, mode)], n=n, **kw)


def interp_cases(rng, maxlen, nrandom):
    out = []
    for k in range(1, maxlen + 1):
        for names in itertools.product(CORE, repeat=k):
            if k == 3 and not (("p99" in names or "list" in names or names[0].startswith("fwd")) and rng.random() < 0.25):
                continue
            for mode, n in ((0o600, 0), (0o600, 1), (0o700, 0), (0o755, 1)):
                if mode != 0o600 and k == 2 and rng.random() < 0.5:
                    continue
                out.append(body_case(rng, names, mode, n))
    allnames = [x for x, _ in LINE_FORMS]
    for _ in range(nrandom):
        k = rng.choice([1, 2, 3, 4, 5, 6, 8])
        names = [rng.choice(allnames) for _ in range(k)]
        if rng.random() < 0.5:            # mostly successful prefixes, so that long bodies get somewhere
            names = [x if x not in ("p100", "p111", "phard", "psoft", "pcrash", "nodir", "mboxondir", "mdonfile") or rng.random() < 0.3 else "p0" for x in names]
        c = body_case(rng, names, rng.choice([0o600, 0o600, 0o644, 0o700]), rng.choice([0, 0, 1]), tag="interp-rnd", last_nl=rng.random() < 0.8)
        if rng.random() < 0.15:           # a long comment in front: the file is read in several pieces
            f = c["files"][0]
            f["body"] = b"#" + b"x" * rng.choice([254, 255, 256, 300, 700]) + b"\n" + f["body"]
        out.append(c)
    return out


def exitcode_cases(rng):
    out = []
    for ex in list(range(256)) + [-1]:
        cb = CB()
        body = b"&pre@x.test\n" + cb.prog(ex, rng.choice([0, 1])) + b"\n" + cb.mbox(b"mb1") + b"\npost@y.test\n"
        out.append(mkcase(cb, "exitcode", [F(b".qmail", body)]))
    return out


# ---- unsafe homes and control files ---------------------------------------
HMODES = [0o700, 0o755, 0o711, 0o750, 0o770, 0o775, 0o757, 0o777, 0o702, 0o1755, 0o1700, 0o1777, 0o1775, 0o2755]
FMODES = [0o600, 0o644, 0o640, 0o660, 0o620, 0o602, 0o606, 0o622, 0o666, 0o700, 0o755, 0o702, 0o722, 0o400, 0o444]


def mode_cases(rng):
    out = []
    for hm in HMODES:
        for fm in FMODES:
            for which in range(3):
                for n in (0, 1):
                    if n == 1 and which == 2:
                        continue
                    cb = CB()
                    if which == 0:      # exact file, forward + program
                        files = [F(b".qmail-a", b"&fa@x.test\n" + (cb.prog(0) + b"\n" if not fm & 0o100 else b""), fm)]
                    elif which == 1:    # chosen through -default, file delivery (refused if x bit)
                        files = [F(b".qmail-default", cb.mbox(b"mb1") + b"\n", fm), F(b".qmail-b", cb.mbox(b"mb2") + b"\n", 0o666)]
                    else:               # a writable file that is *not* the one in charge must not matter
                        files = [F(b".qmail-a", cb.maildir(b"md1") + b"\n", 0o600), F(b".qmail-default", cb.mbox(b"mb2") + b"\n", fm),
                                 F(b".qmail-a-owner", b"", 0o666)]
                    out.append(mkcase(cb, "modes", files, n=n, hmode=hm, dash=b"-", ext=b"a"))
    return out


# ---- loops ------------------------------------------------------------------
def loop_cases(rng):
    out = []
    for local, host in ((b"u", b"h.test"), (b"u-a", b"H.Test"), (b"a b", b"h.test"), (b'q"x', b"h.test")):
        dt = b"Delivered-To: " + local + b"@" + host + b"\n"
        msgs = [
            ("none", MSG0),
            ("first", dt + MSG0),
            ("mid", b"Subject: t\n" + dt + b"X-A: b\n\nbody\n"),
            ("last", b"Subject: t\n" + dt + b"\nbody\n"),
            ("only", dt),
            ("twice", dt + b"Received: x\n" + dt + b"\nbody\n"),
            ("bodyonly", b"Subject: t\n\n" + dt + b"more\n"),
            ("bodyonly2", b"\n" + dt),
            ("other", b"Delivered-To: other@" + host + b"\n" + MSG0),
            ("longer", b"Delivered-To: " + local + b"@" + host + b"x\n" + MSG0),
            ("shorter", b"Delivered-To: " + local + b"@" + host[:-1] + b"\n" + MSG0),
            ("prefixed", b"X-Delivered-To: " + local + b"@" + host + b"\n" + MSG0),
            ("afterother", b"Delivered-To: other@" + host + b"\n" + dt + b"\nbody\n"),
            ("empty", b""),
            ("partial", b"Subject: t\n\nbody without newline"),
            # header lines of exactly the length of the own field, with other contents, in front of it (a forwarding loop
            # between two addresses of equal length looks like this on its second round)
            ("aftersamelen", b"Delivered-To: " + bytes([local[0] ^ 1]) + local[1:] + b"@" + host + b"\n" + dt + b"\nbody\n"),
            ("aftersamelen2", b"Received: by x\n" + b"X-Loop: " + b"y" * (len(dt) - 9) + b"\n" + b"Received: by z\n" + dt + b"Subject: s\n\nbody\n"),
            ("samelenonly", b"Delivered-To: " + bytes([local[0] ^ 1]) + local[1:] + b"@" + host + b"\n" + MSG0),
        ]
        for nm, m in msgs:
            for which in range(3):
                cb = CB()
                if which == 0:
                    body = cb.mbox(b"mb1") + b"\n" + cb.prog(0) + b"\n&fa@x.test\n"
                elif which == 1:
                    body = cb.maildir(b"md1") + b"\n"
                else:
                    body = b"&fa@x.test\n"
                out.append(mkcase(cb, "loop-" + nm, [F(b".qmail", body)], local=local, host=host, msg=m, n=(1 if which == 1 and nm in ("first", "none") else 0)))
    return out


# ---- hostile envelope addresses -------------------------------------------
SENDERS = [b"s@s.test", b"", b"#@[]", b"a b@s.test", b"a\nX-Injected: 1@s.test", b"a@s.test\nX-Injected: 1", b"\n", b"\n\n@\n",
           b'a"b@s.test', b'"\n"@s.test', b"a\\\nb@s.test", b"a\rb@s.test", b".a@s.test", b"a..b@s.test", b"a@b@s.test", b"nodomain",
           b"a\tb@s.test", b"\x80\xff@s.test", b"From x@s.test", b"a@s.test\n\nFrom evil Thu Jan  1 00:00:00 1970", b"x" * 300 + b"@s.test",
           b"a>\nX: <b@s.test"]
LOCALS = [None, b"u\nX-Injected: 1", b"u x", b'u"x', b"\n", b"u\n\nbody", b"u\rx"]
HOSTS = [b"h.test", b"h.test\nX-Injected: 1", b"h"]


def hostile_cases(rng, full):
    out = []
    combos = [(s, l, h) for s in SENDERS for l in LOCALS for h in HOSTS]
    if not full:
        combos = [(s, l, h) for (s, l, h) in combos if l is None or h == b"h.test" or s == b"s@s.test" or rng.random() < 0.15]
    for s, l, h in combos:
        cb = CB()
        body = cb.mbox(b"mb1") + b"\n" + cb.maildir(b"md1") + b"\n" + cb.prog(0) + b"\n&fa@x.test\n"
        ext = b"" if l is None else l[1:]
        files = [F(b".qmail-default", body), F(b".qmail", body)]
        out.append(mkcase(cb, "hostile", files, dash=(b"" if l is None else b"-"), ext=ext, local=l, host=h, sender=s,
                          msg=rng.choice([MSG0, MSG0, b"Subject: t\n\nno newline at end", b""])))
    return out


# ---- -owner -----------------------------------------------------------------
def owner_cases(rng):
    out = []
    for sender in (b"s@s.test", b"", b"#@[]", b"a\nb@s.test", b"#@[]x"):
        for ow in ("none", "file", "dir", "file+default", "default-only", "decoy", "writable"):
            for dash, ext, ctl in ((b"", b"", b".qmail"), (b"-", b"a-b", b".qmail-a-default"), (b"-", b"A.b", b".qmail-a:b")):
                cb = CB()
                body = b"&fa@x.test\nfb@y.test\n" + cb.prog(0) + b"\n"
                files = [F(ctl, body)]
                base = candidates(dash, ext)[0]
                if ow in ("file", "file+default"):
                    files.append(F(base + b"-owner", b"", 0o600))
                if ow == "writable":
                    files.append(F(base + b"-owner", b"x\n", 0o666))
                if ow == "dir":
                    files.append(F(base + b"-owner", kind="dir", mode=0o755))
                if ow in ("file+default", "default-only"):
                    files.append(F(base + b"-owner-default", b"", 0o600))
                if ow == "decoy":
                    files.append(F(ctl + b"-owner", b"", 0o600) if ctl != base else F(base + b"-Owner", b"", 0o600))
                    files.append(F(b".qmail-owner" if base != b".qmail" else b".qmail-x-owner", b"", 0o600))
                out.append(mkcase(cb, "owner", files, dash=dash, ext=ext, sender=sender))
    return out


# ---- defaultdelivery ----------------------------------------------------------
def default_cases(rng):
    out = []
    for st in ("absent", "empty", "empty-x", "empty-w", "absent-dash", "nonempty", "newline-only", "fifo"):
        for dk in ("mbox", "maildir", "prog", "prog100", "fwd", "blank", "multi", "comment", "nonl"):
            for n in (0, 1):
                cb = CB()
                d = {"mbox": lambda: cb.mbox(b"mbD"), "maildir": lambda: cb.maildir(b"mdD"), "prog": lambda: cb.prog(0), "prog100": lambda: cb.prog(100),
                     "fwd": lambda: b"&fd@x.test", "blank": lambda: b"", "multi": lambda: cb.mbox(b"mbD") + b"\n" + cb.prog(0) + b"\nfd@x.test\n",
                     "comment": lambda: b"#", "nonl": lambda: cb.prog(99) + b"\n" + cb.mbox(b"mbD")}[dk]()
                dash, files = b"", []
                if st == "empty":
                    files = [F(b".qmail", b"")]
                elif st == "empty-x":
                    files = [F(b".qmail", b"", 0o700)]
                elif st == "empty-w":
                    files = [F(b".qmail", b"", 0o602)]
                elif st == "absent-dash":
                    dash = b"-"
                elif st == "nonempty":
                    files = [F(b".qmail", cb.mbox(b"mb1") + b"\n")]
                elif st == "newline-only":
                    files = [F(b".qmail", b"\n")]
                elif st == "fifo":
                    files = [F(b".qmail", kind="fifo")]
                out.append(mkcase(cb, "default", files, n=n, dash=dash, ext=(b"zz" if dash else b""), dflt=d))
    return out


# ---- everything at once, at random --------------------------------------------
def random_cases(rng, count):
    out = []
    allnames = [x for x, _ in LINE_FORMS]
    for _ in range(count):
        cb = CB()
        dash, ext = rng.choice(EXTS[:18])
        files = []
        for nm in sorted(set(candidates(dash, ext) + rng.sample(SEARCH_POOL + DECOYS, 4))):
            if b"/" in nm or b"\n" in nm or rng.random() < 0.45:
                continue
            k = rng.choice(["r600"] * 6 + ["r644", "r700", "r602", "r620", "dir", "fifo", "symlink"])
            if k in ("dir", "fifo"):
                files.append(F(nm, kind=k, mode=0o755 if k == "dir" else 0o600))
                continue
            names = [rng.choice(allnames) for _ in range(rng.choice([0, 1, 2, 3, 4]))]
            names = [x if x not in ("p100", "p111", "phard", "psoft", "pcrash", "nodir", "mboxondir", "mdonfile") or rng.random() < 0.4 else "mbox" for x in names]
            body = b"".join(FORM[x](cb, rng) + b"\n" for x in names)
            files.append(F(nm, body, 0o600 if k == "symlink" else int(k[1:], 8), via=("symlink" if k == "symlink" else "")))
        if rng.random() < 0.3 and b"/" not in ext and b"\n" not in ext:
            files.append(F(candidates(dash, ext)[0] + b"-owner", b"", 0o600))
        local = rng.choice([None, None, None, b"u\nX: y", b"u z"])
        host = rng.choice([b"h.test", b"h.test", b"a.b.c.d"])
        rc = (b"u" + dash + ext if local is None else local) + b"@" + host
        msg = rng.choice([MSG0, MSG0, MSG0, b"A: b\nDelivered-To: " + rc + b"\n\nx\n", b"\nDelivered-To: " + rc + b"\n", b"no newline"])
        if b"\n" in rc:
            msg = MSG0
        out.append(mkcase(cb, "random", files, n=rng.choice([0, 0, 0, 1]), hmode=rng.choice([0o755] * 6 + [0o700, 0o775, 0o757, 0o1755]),
                          dash=dash, ext=ext, local=local, host=host, sender=rng.choice(SENDERS), msg=msg,
                          dflt=rng.choice([None, None, cb.maildir(b"mdD"), b"&fd@x.test"])))
    return out


# --------------------------------------------------------------------------
# running one case on the real binary
# --------------------------------------------------------------------------
ROOT = os.geteuid() == 0        # as root: run qmail-local as the unprivileged UID owning the home; else as ourselves


def own(p, link=False):
    if ROOT:
        (os.lchown if link else os.chown)(p, UID, GID)


def subst(b, home):
    return b.replace(H, home)


def count_slot(path, kind):
    if kind == "f":
        try:
            with open(path, "rb") as f:
                data = f.read()
        except (FileNotFoundError, IsADirectoryError, NotADirectoryError):
            return 0, []
        starts = [m.start() for m in re.finditer(rb"(?m)^From ", data)]
        return len(starts), [data[a:b] for a, b in zip(starts, starts[1:] + [len(data)])]
    try:
        names = sorted(x for x in os.listdir(os.path.join(path, b"new")) if not x.startswith(b"."))
    except (FileNotFoundError, NotADirectoryError):
        return 0, []
    copies = []
    for x in names:
        with open(os.path.join(path, b"new", x), "rb") as f:
            copies.append(f.read())
    return len(names), copies


def L(b):
    return list(b)


class Runner:
    def __init__(self, ck, tree):
        self.ck, self.tree = ck, tree
        self.base = ck.scratch.sub("h")
        os.chmod(ck.scratch.dir, 0o755)
        os.chmod(self.base, 0o755)
        self.qq = sessions.QQDir(ck.scratch.path("qq"))
        os.chmod(self.qq.path, 0o1777)
        self.plan_ok = True

    def materialise(self, idx, c):
        D = os.path.join(self.base, "%d" % idx).encode()
        home = os.path.join(D, b"h")
        os.makedirs(home)
        os.chmod(D, 0o755)
        made = set()
        for f in sorted(c["files"], key=lambda f: f["nm"].count(b"/")):
            p = os.path.join(home, f["nm"])
            if f["kind"] == "dir":
                os.mkdir(p)
                os.chmod(p, f["mode"])
            elif f["kind"] == "fifo":
                os.mkfifo(p, f["mode"])
                os.chmod(p, f["mode"])
            else:
                tgt = p
                if f["via"] == "symlink":
                    tgt = os.path.join(home, b"real_" + f["nm"].replace(b"/", b"%"))
                    os.symlink(tgt, p)
                    own(p, True)
                    made.add(os.path.basename(tgt))
                with open(tgt, "wb") as fh:
                    fh.write(subst(f["body"], home))
                os.chmod(tgt, f["mode"])
                p = tgt
            own(p)
        for name, kind in c["slots"]:
            if kind == "d":
                for sub in (b"", b"tmp", b"new", b"cur"):
                    os.mkdir(os.path.join(home, name, sub))
                    own(os.path.join(home, name, sub))
        for name, body in c["outside"]:
            with open(os.path.join(D, name), "wb") as fh:
                fh.write(subst(body, home))
            own(os.path.join(D, name))
        with open(os.path.join(D, b"msg"), "wb") as fh:
            fh.write(c["msg"])
        with open(os.path.join(D, b"plog"), "wb"):
            pass
        os.chmod(os.path.join(D, b"plog"), 0o666)
        own(home)
        os.chmod(home, c["hmode"])
        return D, home

    def run(self, job):
        idx, c = job
        D, home = self.materialise(idx, c)
        try:
            return self._run(idx, c, D, home)
        finally:
            shutil.rmtree(D, ignore_errors=True)          # running as root: modes do not get in the way

    def _run(self, idx, c, D, home):
        before_home = set(os.listdir(home))
        before_D = set(os.listdir(D))
        watch = [os.path.join(home, name) for name, kind in c["slots"]]
        env = {"PATH": BUILD + ":/usr/bin:/bin", "QMAILQUEUE": PROBE, "VERIF_PROBE_QQ": sessions.STANDIN_QQ,
               "VERIF_QQ_DIR": self.qq.path, "VERIF_QQ_TAG": "c%d" % idx, "VERIF_QQ_EXIT": "0"}
        envb = {k.encode(): v.encode() for k, v in env.items()}
        envb[b"VERIF_PROBE_LOG"] = os.path.join(D, b"plog")
        envb[b"VERIF_PROBE_WATCH"] = b"\n".join(watch)
        argv = ([RUNAS.encode(), b"%d" % UID, b"%d" % GID] if ROOT else []) + [self.tree.bin("qmail-local").encode()] + ([b"-n"] if c["n"] else []) + \
               [b"u", home, c["local"], c["dash"], c["ext"], c["host"], c["sender"], subst(c["dflt"], home)]
        with open(os.path.join(D, b"msg"), "rb") as fin:
            p = subprocess.Popen(argv, stdin=fin, stdout=subprocess.PIPE, stderr=subprocess.PIPE, env=envb, cwd="/")
            try:
                out, err = p.communicate(timeout=30)
                hung = False
            except subprocess.TimeoutExpired:
                p.kill()
                out, err = p.communicate()
                hung = True
        rc = p.returncode if p.returncode >= 0 else 256 - p.returncode
        # ---- what happened
        fin_counts, dl = [], []
        for i, (name, kind) in enumerate(c["slots"]):
            n, copies = count_slot(os.path.join(home, name), kind)
            fin_counts.append(n)
            for d in copies:
                dl.append({"ix": i + 1, "kind": "mbox" if kind == "f" else "maildir", "data": L(d)})
        ev = []
        with open(os.path.join(D, b"plog"), "rb") as fh:
            for line in fh:
                ev.append(json.loads(line))
        slotnames = {name.split(b"/")[0] for name, _ in c["slots"]}
        stray = len([x for x in set(os.listdir(home)) - before_home if x not in slotnames]) + len(set(os.listdir(D)) - before_D)
        plan = []
        if c["n"]:
            for line in out.split(b"\n"):
                m = re.match(rb"(maildir|mbox|program|forward) (.*)$", line, re.S)
                if m:
                    plan.append({"t": m.group(1).decode(), "arg": L(m.group(2))})
        return {"idx": idx, "rc": rc, "hung": hung, "ev": ev, "fin": fin_counts, "dl": dl, "stray": stray, "plan": plan,
                "home": home, "out": out[:400], "err": err[:400]}

    def record(self, c, o, qrecs):
        """The ndjson record TLC judges: the case as materialised + the observation."""
        home = o["home"]
        q = list(qrecs.get("c%d" % o["idx"], []))
        ev = []
        dt = rp = b""
        seen_p = False
        for e in o["ev"]:
            r = {"k": e["k"], "id": e["id"], "snap": e["snap"], "inp": L(bytes.fromhex(e["in"])), "from": [], "to": []}
            if e["k"] == "P" and not seen_p:
                seen_p = True
                dt = bytes.fromhex(e["dt"]) if e["dt"] is not None else b""
                rp = bytes.fromhex(e["rp"]) if e["rp"] is not None else b""
            if e["k"] == "Q":
                if q:
                    qr = q.pop(0)
                    snd, rcpts, complete = sessions.parse_envelope(qr["env"])
                    r["inp"] = L(qr["msg"])
                    r["from"] = L(snd or b"")
                    r["to"] = [L(x) for x in rcpts] if complete else [[0]]
                else:
                    r["to"] = [[0]]          # the queue program was started but recorded nothing
            ev.append(r)
        return {
            "n": c["n"], "hmode": c["hmode"],
            "files": [{"nm": L(f["nm"]), "kind": f["kind"], "mode": f["mode"], "body": L(subst(f["body"], home))} for f in c["files"]],
            "dash": L(c["dash"]), "ext": L(c["ext"]), "local": L(c["local"]), "host": L(c["host"]), "sender": L(c["sender"]),
            "dflt": L(subst(c["dflt"], home)), "msg": L(c["msg"]),
            "progs": [{"cmd": L(cmd), "id": i, "ex": ex} for cmd, i, ex in c["progs"]],
            "tgts": [{"path": L(subst(p, home)), "ix": ix, "what": w} for p, ix, w in c["tgts"]], "nt": len(c["slots"]),
            "rc": o["rc"], "ev": ev, "fin": o["fin"], "dl": o["dl"], "pl": 1 if self.plan_ok else 0, "plan": o["plan"],
            "dt": L(dt), "rp": L(rp), "stray": o["stray"]}


def esc(b, cap=60):
    s = "".join(chr(x) if 33 <= x < 127 and chr(x) not in "%," else "%%%02x" % x for x in b[:cap])
    return s + ("..." if len(b) > cap else "")


def witness_key(why, c, home):
    near = candidates(c["dash"], c["ext"])
    near += [near[0] + b"-owner", near[0] + b"-owner-default"]
    ctl = ";".join("%s=%o:%s" % (esc(f["nm"][6:], 24), f["mode"], f["kind"] if f["kind"] != "reg" else esc(f["body"].replace(H, b"~"), 48))
                   for f in sorted(c["files"], key=lambda f: (f["nm"] not in near, f["nm"]))[:4])
    return "%s:%shome=%o,dash=%s,ext=%s,rcpt=%s@%s,sender=%s,msg=%s,files=%s" % (
        why, "-n," if c["n"] else "", c["hmode"], esc(c["dash"]), esc(c["ext"], 24), esc(c["local"], 24), esc(c["host"], 16),
        esc(c["sender"], 24), esc(c["msg"], 24), ctl)


def temp_trouble(ck, tree, thorough):
    """one call of qmail-local failing with an errno that stands for temporary trouble, for an address that has its own .qmail file
    (and a -default file and default delivery instructions that would apply if that file 'did not exist')"""
    import sandbox
    root = ck.scratch.sub("tt")
    home = os.path.join(root, "home")
    msgf = os.path.join(root, "msg")
    with open(msgf, "wb") as fh:
        fh.write(b"Subject: t\n\nbody\n")

    def setup():
        shutil.rmtree(home, ignore_errors=True)
        os.mkdir(home, 0o755)
        for name, body in ((".qmail-a", b"./mbA\n"), (".qmail-default", b"./mbD\n")):
            with open(os.path.join(home, name), "wb") as fh:
                fh.write(body)
            os.chmod(os.path.join(home, name), 0o600)

    def count(name):
        try:
            with open(os.path.join(home, name), "rb") as fh:
                return fh.read().count(b"\nSubject: t\n")
        except FileNotFoundError:
            return 0

    def run(extra, trace=None):
        setup()
        if trace is None:
            trace = os.path.join(root, "trace.x")          # (the shim takes decisions only while it records)
            if os.path.exists(trace):
                os.unlink(trace)
        env = sandbox.shim_env(tree, trace=trace, root=root, extra=extra)
        with open(msgf, "rb") as fin:
            p = subprocess.run([tree.bin("qmail-local"), "--", "u", home, "u-a", "-", "a", "h.test", "s@s.test", "./mbF"], stdin=fin,
                               stdout=subprocess.PIPE, stderr=subprocess.PIPE, env=env, cwd="/", timeout=60)
        return {"rc": p.returncode if p.returncode >= 0 else 256 - p.returncode, "a": count("mbA"), "d": count("mbD"), "f": count("mbF")}
    tr = os.path.join(root, "trace")
    base = run({}, trace=tr)
    if base["rc"] != 0 or base["a"] != 1 or base["d"] or base["f"]:
        raise Infra("temporary-trouble sweep: the undisturbed run does not deliver to mailbox A: %r" % base)
    calls = {}
    for e in sandbox.read_trace(tr):
        if e.get("k", 0) > 0 and e.get("c") not in ("start", "exit", "forked", "hello") and "qmail-local" in e.get("r", ""):
            calls.setdefault((e.get("p"), e["k"]), e["c"])
    ks = sorted({k for (_, k) in calls})
    errnos = [4, 5, 11, 12, 16, 23, 24, 26, 27, 28, 35, 110] if thorough else [5, 11, 12, 23, 24, 28]
    recs = []
    for k in ks:
        for en in errnos:
            r = run({"VERIF_FAULT": "%d:%d" % (k, en), "VERIF_FAULT_PROG": "qmail-local"})
            r.update({"brc": base["rc"], "ba": base["a"], "bd": base["d"], "bf": base["f"], "k": k, "errno": en})
            recs.append(r)
    f = ck.scratch.path("c13tt.ndjson")
    write_ndjson(f, recs)
    bad, vres = tlc_validate_records("DotQmailFaultRec", "DotQmailFaultRec.cfg", f, len(recs), chunk=100, heap="2g", timeout=600)
    ck.add_tlc("DotQmailFaultRec", vres)
    ck.cov["runs_with_one_call_failing_temporarily"] = len(recs)
    ck.cov["of_which_deferred"] = sum(1 for r in recs if r["rc"] == 111)
    if not ck.cov["of_which_deferred"]:
        raise Infra("temporary-trouble sweep: no failing call had any effect (the fault injection is not working)")
    seen = set()
    for idx, why in bad:
        why = why.strip('"')
        r = recs[idx - 1]
        key = "%s:errno=%d" % (why, r["errno"])
        if key in seen:
            continue
        seen.add(key)
        ck.violation(key, "qmail-local for an address with its own .qmail file, call %d failing with errno %d: exit %d, mailboxes A/D/F hold %d/%d/%d messages (undisturbed: exit %d, %d/0/0)"
                     % (r["k"], r["errno"], r["rc"], r["a"], r["d"], r["f"], r["brc"], r["ba"]), {"k": r["k"], "errno": r["errno"]})


def main():
    ap = argparse.ArgumentParser()
    ap.add_argument("--tier", default=os.environ.get("VERIF_TIER", "quick"))
    ap.add_argument("--replay")
    a = ap.parse_args()
    os.umask(0o022)
    ck = Check("C13", a.tier)
    thorough = a.tier == "thorough"
    if not os.access(PROBE, os.X_OK) or not os.access(RUNAS, os.X_OK):
        raise Infra("build/standin_c13probe or build/standin_c13run missing: run setup.sh")

    # ---- model: three slices, side by side
    def model(sl):
        cfg = ck.scratch.path("DotQmailP_%s.cfg" % sl)
        with open(cfg, "w") as f:
            f.write('SPECIFICATION Spec\nCONSTANTS\n Slice = "%s"\n Big = %s\nINVARIANT Conforms\nINVARIANT SearchAgrees\n'
                    % (sl, "TRUE" if thorough else "FALSE"))
            if sl == "T":       # hand-computed vectors: P arrives where expected, and the monitor rejects falsified observations
                f.write("INVARIANT UnitTests\nINVARIANT MonitorRejects\n")
        return sl, tlc("DotQmailP", cfg, workers=(2 if sl == "T" else max(2, NCPU // 3)), timeout=3000, heap="6g")
    models = None
    if not a.replay and not os.environ.get("VERIF_C13_NOMODEL"):      # (development aid: real code only)
        import concurrent.futures
        pool = concurrent.futures.ThreadPoolExecutor(max_workers=4)
        models = [pool.submit(model, sl) for sl in ("S", "I", "H", "T")]   # run beside the real-code phase, collected below

    def collect_models():
        for fut in models or []:
            sl, res = fut.result()
            need_ok(res, "DotQmailP slice " + sl)
            ck.add_tlc("DotQmailP(Slice=%s,Big=%s)" % (sl, thorough), res)
            if res.violated:
                ck.model_violation("DotQmailP/" + sl, res)
            if res.distinct < (100 if sl == "T" else 1000):
                raise Infra("DotQmailP slice %s explored only %d states" % (sl, res.distinct))
        log("C13: model runs done after %.0f s" % (time.time() - ck.t0))

    # ---- real code
    tree = build_tree(ck.scratch, split=3)
    rn = Runner(ck, tree)
    rng = ck.rng

    # calibration: is the plan printed by -n readable the way this check reads it?  (wording is not documented;
    # if it has been reworded the -n runs are judged by exit status and absence of effects only)
    cb = CB()
    cal = mkcase(cb, "cal", [F(b".qmail", cb.mbox(b"mb1") + b"\n" + cb.maildir(b"md1") + b"\n|true\n&fa@x.test\n")], n=1)
    o = rn.run((0, cal))
    want = [("mbox", b"./mb1"), ("maildir", b"./md1/"), ("program", b"true"), ("forward", b"fa@x.test")]
    if o["rc"] != 0:
        raise Infra("calibration run of qmail-local -n failed: rc=%s %r %r" % (o["rc"], o["out"], o["err"]))
    if [(p["t"], bytes(p["arg"])) for p in o["plan"]] != want:
        rn.plan_ok = False
        log("C13: output of -n not understood (%r): plans are not compared" % o["out"][:200])
        ck.assumptions.append("the plan printed by qmail-local -n could not be parsed; -n runs judged by exit status and absence of effects only")

    if a.replay:
        cases = [dec_case(json.load(open(a.replay))["case"])]
    else:
        nrand = 12000 if thorough else 700
        cases = search_cases(rng, 60 if thorough else 6, 7)
        cases += interp_cases(rng, 3 if thorough else 2, 6000 if thorough else 500)
        cases += exitcode_cases(rng)
        cases += mode_cases(rng)
        cases += loop_cases(rng)
        cases += hostile_cases(rng, thorough)
        cases += owner_cases(rng)
        cases += default_cases(rng)
        cases += random_cases(rng, nrand)
    jobs = list(enumerate(cases, 1))
    t1 = time.time()
    obs = sessions.pmap(rn.run, jobs)
    log("C13: %d runs of qmail-local in %.0f s" % (len(jobs), time.time() - t1))
    for k, o in enumerate(obs):
        if o["hung"]:                                   # once more, under a fresh tag (a loaded machine is not a finding)
            obs[k] = rn.run((jobs[k][0] + 10 ** 6, jobs[k][1]))
    qrecs = rn.qq.collect()
    hung = sum(1 for o in obs if o["hung"])
    if hung > max(2, len(jobs) // 100):
        raise Infra("%d of %d runs hung" % (hung, len(jobs)))
    recs = [rn.record(c, o, qrecs) for (idx, c), o in zip(jobs, obs)]
    fam = {}
    for c, o, r in zip(cases, obs, recs):
        fam[c["tag"].split("-")[0]] = fam.get(c["tag"].split("-")[0], 0) + 1
        ck.count((c["n"], c["hmode"], tuple((f["nm"], f["kind"], f["mode"], f["body"]) for f in c["files"]), c["dash"], c["ext"], c["local"],
                  c["host"], c["sender"], c["dflt"], c["msg"]), nontrivial=True)
    collect_models()
    t1 = time.time()
    bad, PIECE = [], 8000
    for lo in range(0, len(recs), PIECE):
        recfile = ck.scratch.path("c13_%d.ndjson" % lo)
        write_ndjson(recfile, recs[lo:lo + PIECE])
        b, vres = tlc_validate_records("DotQmailRec", "DotQmailRec.cfg", recfile, len(recs[lo:lo + PIECE]), chunk=100, heap="8g")
        bad += [(i + lo, why) for i, why in b]
        ck.add_tlc("DotQmailRec[%d..]" % lo, vres)
        os.unlink(recfile)
    log("C13: %d records judged by TLC in %.0f s" % (len(recs), time.time() - t1))
    ck.cov["traces_validated_against_impl"] = len(recs)
    ck.cov["families"] = fam
    ck.cov["runs_with"] = {"program_run": sum(1 for o in obs if any(e["k"] == "P" for e in o["ev"])),
                           "forward": sum(1 for o in obs if any(e["k"] == "Q" for e in o["ev"])),
                           "file_delivery": sum(1 for o in obs if o["dl"]), "plan_printed": sum(1 for o in obs if o["plan"]),
                           "several_instructions_took_effect": sum(1 for o in obs if len(o["ev"]) + sum(o["fin"]) >= 2)}
    ck.cov["outcomes"] = {str(k): sum(1 for o in obs if o["rc"] == k) for k in sorted({o["rc"] for o in obs})}
    step = max(1, len(cases) // 5)
    for c, o in list(zip(cases, obs))[::step]:
        ck.sample({"family": c["tag"], "n": c["n"], "home_mode": "%o" % c["hmode"], "dash": esc(c["dash"]), "ext": esc(c["ext"]),
                   "files": [[esc(f["nm"]), f["kind"], "%o" % f["mode"], esc(f["body"].replace(H, b"~"))] for f in c["files"][:5]],
                   "exit": o["rc"], "events": [[e["k"], e["id"], e["snap"]] for e in o["ev"]], "final_counts": o["fin"]})
    ck.cov["rule"] = ("real qmail-local run as uid %d in a generated home per case: every subset of the candidate control files of %d extensions "
                      "(near-misses in case, dots, slashes, trailing dashes; decoy names, directories, FIFOs, symlinks, writable and executable files) "
                      "+ random homes; every .qmail body of up to %d lines over %d line forms x (x bit, -n) + random bodies up to 8 lines; every program "
                      "exit code 0..255 and a crash; %d home modes x %d file modes; loop messages; %d hostile senders x recipients; -owner; "
                      "defaultdelivery; %d fully random cases; distinct by the complete case" %
                      (UID, len(EXTS), 3 if thorough else 2, len(CORE), len(HMODES), len(FMODES), len(SENDERS), 12000 if thorough else 700))
    ck.cov["exhaustive"] = True
    ck.assumptions += [
        "programs are probes at the qmail-command(8) interface; the order of instructions is observed through the probes' snapshots of all delivery targets, the final state of the targets and the queue stand-in's record",
        "group-writable homes / control files, the sticky bit under -n, lines starting with '+' other than +list, and a recipient containing a line feed together with a Delivered-To field are left unconstrained (documents and shipped conf-patrn differ or are silent)",
        "+list is judged by its inherited meaning (rest of the file forward-only); it has been undocumented since 1996 (CHANGES.md)",
        "messages contain no 'From ' lines (mbox quoting is C12's subject)"]

    best = {}
    for idx, why in bad:
        why = why.strip('"')
        c, o, r = cases[idx - 1], obs[idx - 1], recs[idx - 1]
        if why == "GENBUG":
            raise Infra("generator produced a line the tables do not describe: %r" % enc_case(c))
        size = sum(len(f["body"]) for f in c["files"]) + len(c["files"]) * 20 + len(c["sender"]) + len(c["local"]) + len(c["msg"])
        g = (why, c["tag"])                             # smallest witness per failing clause and family of cases
        if g not in best or size < best[g][0]:
            best[g] = (size, c, o)
    pending = []
    for (why, _), (size, c, o) in sorted(best.items(), key=lambda kv: (kv[1][0], kv[0])):
        key = witness_key(why, c, o["home"])
        desc = "exit %s, programs/queue runs %s, final message counts %s (slots %s), stray %d, plan %s; stderr %r" % (
            o["rc"], [(e["k"], e["id"], e["snap"]) for e in o["ev"]], o["fin"], [esc(n) for n, _ in c["slots"]], o["stray"],
            [(p["t"], esc(bytes(p["arg"]).replace(o["home"], b"~"))) for p in o["plan"]], o["err"][:120])
        if any(re.fullmatch(rx, key) for rx in PENDING_FINDINGS):
            pending.append(key)
            print("PENDING-FINDING property=C13 %s: %s" % (key, desc))
            continue
        ck.violation(key, desc, enc_case(c))
    ck.cov["pending_findings_hit"] = pending
    if not a.replay:
        temp_trouble(ck, tree, thorough)
    ck.finish()


if __name__ == "__main__":
    main_wrapper(main)
