#!/usr/bin/env python3
"""C08 SMTP transactions are well-sequenced and relaying is gated by policy.

  model   spec/SmtpModel.tla: the session logic of qmail-smtpd (transcribed, spec/SmtpSession.tla PStep) against the monitor
          MonStep for EVERY command sequence up to a bound over 11 verbs x address shapes x a family of configurations
  impl    the real qmail-smtpd, one interactive session per command sequence (every sequence up to length 3 over the full
          command set under the base configuration, seeded longer ones under every configuration), arguments rendered in
          many forms (case, source routes, bracketless, quoted / escaped local parts, CRLF and LF-only line ends), then the
          same sessions replayed fully pipelined; control files written per configuration, morercpthosts.cdb compiled by the
          real qmail-newmrh; envelope captured by the QMAILQUEUE stand-in
  verdict spec/SmtpSessionRec.tla: TLC folds the monitor over (command, reply class, envelope submitted) of every session
"""
import sys, os, json, argparse, itertools, subprocess, select, re
sys.path.insert(0, os.path.join(os.path.dirname(os.path.abspath(__file__)), "..", "lib"))
from vlib import *
import sandbox, sessions

LIMIT = 900          # addresses of LIMIT bytes and more are refused (qmail-smtpd addrparse: addr.len counts the final NUL)
NOADDR = {"loc": "", "dom": [], "noat": 0, "long": 0, "lit": 0, "edge": 0}


def A(loc, dom, **kw):
    a = {"loc": loc, "dom": list(dom), "noat": 0, "long": 0, "lit": 0, "edge": 0}
    a.update(kw)
    return a


SENDERS = [A("s", ["ok", "test"]), A("bad", ["bmf", "test"]), A("x", ["bmfdom", "test"]), A("", []), A("s", ["ok", "test"], long=1),
           A("bulk@good.test", ["bmfdom", "test"]), A("x@bmfdom.test", ["ok", "test"]),         # an '@' inside the (quoted) local part
           A("s", [], lit=1, edge=1)]                  # an IP-literal address one byte under the length limit as written
RCPTS = [A("r", ["rh", "test"]), A("r", ["sub", "dot", "test"]), A("r", ["dot", "test"]), A("r", ["more", "test"]), A("r", ["x", "moredot", "test"]),
         A("r", ["other", "test"]), A("r", ["x", "rh", "test"]), A("r", [], noat=1), A("r", [], lit=1), A("r", ["rh", "test"], long=1),
         A("r", ["moredot", "test"]), A("q", ["rh", "test"]), A("r@rh.test", ["other", "test"]), A("r@other.test", ["rh", "test"]),
         A("r", [], lit=1, edge=1),
         A("r", ["abcdefghijklm", "nopqrstuvwxyz", "test"])]      # every letter once: matching ignores case for each of them
BASE = {"rh": 1, "exact": [["rh", "test"], ["lip", "test"], ["abcdefghijklm", "nopqrstuvwxyz", "test"]], "suffix": [["dot", "test"]], "mexact": [["more", "test"]], "msuffix": [["moredot", "test"]],
        "bmfaddr": [{"loc": "bad", "dom": ["bmf", "test"]}], "bmfdom": [["bmfdom", "test"]], "lip": ["test", "example"], "relay": "unset", "mrhbad": 0}
# mrhbad: control/morercpthosts.cdb exists but cannot be read properly (1 = zero length, 2 = cut to 1024 bytes): nothing is listed in it
# lip: control/localiphost; when the file is absent the name defaults to control/me (test.example in the sandbox)


def configs():
    out = [dict(BASE)]
    for ch in ({"rh": 0}, {"lip": ["lip", "test"]}, {"lip": ["notlisted", "test"]}, {"relay": "empty"}, {"relay": "suffix"},
               {"mexact": [], "msuffix": [], "bmfaddr": [], "bmfdom": []}, {"exact": [], "suffix": []}, {"mrhbad": 1}, {"mrhbad": 2}):
        c = dict(BASE)
        c.update(ch)
        out.append(c)
    return out


def write_config(tree, cfg, rng):
    ctl = os.path.join(tree.root, "control")
    for f in ("rcpthosts", "morercpthosts", "morercpthosts.cdb", "badmailfrom", "localiphost"):
        p = os.path.join(ctl, f)
        if os.path.exists(p):
            os.unlink(p)
    mix = lambda s: "".join(ch.upper() if rng.random() < 0.3 else ch for ch in s)
    if cfg["rh"]:
        with open(os.path.join(ctl, "rcpthosts"), "w") as f:
            for d in cfg["exact"]:
                f.write(mix(".".join(d)) + "\n")
            for d in cfg["suffix"]:
                f.write("." + mix(".".join(d)) + "\n")
    if cfg["mexact"] or cfg["msuffix"]:
        with open(os.path.join(ctl, "morercpthosts"), "w") as f:
            for d in cfg["mexact"]:
                f.write(".".join(d) + "\n")
            for d in cfg["msuffix"]:
                f.write("." + ".".join(d) + "\n")
        r = run([tree.bin("qmail-newmrh")], cwd=tree.root)
        if r.returncode != 0:
            raise Infra("qmail-newmrh failed: %s" % r.stdout.decode(errors="replace"))
        if cfg.get("mrhbad"):
            with open(os.path.join(ctl, "morercpthosts.cdb"), "r+b") as f:
                f.truncate(0 if cfg["mrhbad"] == 1 else 1024)
    if cfg["bmfaddr"] or cfg["bmfdom"]:
        with open(os.path.join(ctl, "badmailfrom"), "w") as f:
            for a in cfg["bmfaddr"]:
                f.write(mix("%s@%s" % (a["loc"], ".".join(a["dom"]))) + "\n")
            for d in cfg["bmfdom"]:
                f.write("@" + mix(".".join(d)) + "\n")
    # the documented freedoms of a control file: a comment, trailing blanks, an empty line, a last line without its line feed
    for fn in ("rcpthosts", "badmailfrom"):
        p_ = os.path.join(ctl, fn)
        if os.path.exists(p_) and rng.random() < 0.6:
            lines = open(p_).read().split("\n")[:-1]
            if lines:
                lines.insert(rng.randrange(len(lines) + 1), "# comment")
                lines.insert(rng.randrange(len(lines)), "")
                lines[-1] = lines[-1] + rng.choice(["", " ", "\t"])
                with open(p_, "w") as f:
                    f.write("\n".join(lines) + ("" if rng.random() < 0.5 and not lines[-1].startswith("#") else "\n"))
    if cfg["lip"] != ["test", "example"]:
        with open(os.path.join(ctl, "localiphost"), "w") as f:
            f.write(".".join(cfg["lip"]) + "\n")


def mailbox(a, rng):
    """the exact mailbox text this occurrence of the abstract address denotes (case may vary: matching ignores case)"""
    if a["long"]:
        loc = a["loc"] + "l" * rng.choice([900, 1000, 2000])
    elif a.get("edge"):
        loc = a["loc"] + "e" * (LIMIT - 1 - len("@[127.0.0.1]") - len(a["loc"]))     # exactly LIMIT - 1 bytes as written
    else:
        loc = a["loc"]
    if a["noat"]:
        return loc
    dom = "[127.0.0.1]" if a["lit"] else ".".join(a["dom"])
    if rng.random() < 0.4:
        dom = "".join(ch.upper() if rng.random() < 0.5 else ch for ch in dom)
    if loc == "" and not a["dom"]:
        return ""
    return loc + "@" + dom


def render(verb, mb, rng):
    """an argument text that denotes mailbox mb"""
    kw = {"MAIL": "FROM", "RCPT": "TO"}[verb]
    kw = rng.choice([kw, kw.lower(), kw.capitalize()])
    form = rng.choice(["plain", "plain", "route", "bare", "quoted", "escaped", "space", "param"]) if mb else "plain"
    loc, at, dom = mb.rpartition("@") if "@" in mb else (mb, "", "")
    if "@" in loc:
        form = rng.choice(["quoted", "escaped"])        # an '@' in the local part can only be written quoted or escaped
    if form == "route" and at:
        arg = "%s:<@relay1.test,@relay2.test:%s>" % (kw, mb)
    elif form == "bare" and mb and " " not in mb:
        arg = "%s:%s" % (kw, mb)
    elif form == "quoted" and loc and len(loc) < 100:
        arg = '%s:<"%s"%s%s>' % (kw, loc, at, dom)
    elif form == "escaped" and loc and len(loc) < 100:
        arg = "%s:<%s%s%s>" % (kw, "".join("\\" + ch for ch in loc), at, dom)
    elif form == "space":
        arg = "%s: <%s>" % (kw, mb)
    elif form == "param":
        arg = "%s:<%s> SIZE=100 BODY=8BITMIME" % (kw, mb)
    else:
        arg = "%s:<%s>" % (kw, mb)
    v = rng.choice([verb, verb.lower(), verb.capitalize()])
    return "%s %s" % (v, arg)


class Session:
    def __init__(self, tree, env):
        self.p = subprocess.Popen([tree.bin("qmail-smtpd")], stdin=subprocess.PIPE, stdout=subprocess.PIPE, stderr=subprocess.DEVNULL, env=env, cwd=tree.root)
        self.buf = b""

    def reply(self, timeout=10.0):
        """one complete reply (multi-line merged): returns code or None on EOF/time-out"""
        while True:
            m = re.search(rb"(?:^|\n)(\d\d\d) [^\n]*\n", self.buf)
            if m:
                code = int(m.group(1))
                self.buf = self.buf[m.end():]
                return code
            r, _, _ = select.select([self.p.stdout], [], [], timeout)
            if not r:
                return None
            d = os.read(self.p.stdout.fileno(), 65536)
            if not d:
                return None
            self.buf += d

    def send(self, data):
        try:
            self.p.stdin.write(data)
            self.p.stdin.flush()
        except (BrokenPipeError, OSError):
            pass

    def close(self):
        try:
            self.p.stdin.close()
        except OSError:
            pass
        try:
            self.p.wait(timeout=5)
        except subprocess.TimeoutExpired:
            self.p.kill()
            self.p.wait()
        self.p.stdout.close()


def cls(code):
    return str(code // 100) if code else "0"


def run_session(tree, qq, base_env, idx, cfg, seq, seed, dk="normal"):
    """seq: list of (verb, abstract addr or None). Interactive run; returns record.
    dk: what happens to the messages of this session after 354 - "normal" (accepted), "over" (larger than DATABYTES: 552), "hops"
    (100 Received fields: 554), "qtemp" / "qperm" (the queue program fails): however a DATA ends, the transaction is over"""
    import random
    rng = random.Random(seed)
    env = dict(base_env)
    env.update(qq.env("s%d" % idx, exitcode={"qtemp": 53, "qperm": 31}.get(dk, 0)))
    if dk == "over":
        env["DATABYTES"] = "20"
    if cfg["relay"] == "empty":
        env["RELAYCLIENT"] = ""
    elif cfg["relay"] == "suffix":
        env["RELAYCLIENT"] = "@relay.suffix.test"
    eol = rng.choice([b"\r\n", b"\r\n", b"\n"])
    s = Session(tree, env)
    steps = []
    wire = []
    if s.reply() != 220:
        s.close()
        raise Infra("no greeting from qmail-smtpd")
    for verb, a in seq:
        if verb in ("MAIL", "RCPT"):
            mb = mailbox(a, rng)
            line = render(verb, mb, rng)
        else:
            mb = ""
            line = {"HELO": "HELO client.test", "EHLO": "ehlo client.test", "RSET": "RSET", "NOOP": "noop", "VRFY": "VRFY someone", "HELP": "HELP",
                    "XXXX": "XXXX arg", "DATA": "DATA", "QUIT": "QUIT"}[verb]
        s.send(line.encode("latin1") + eol)
        wire.append(line)
        code = s.reply()
        step = {"verb": verb, "a": a or NOADDR, "reply": cls(code), "mb": mb, "data250": 0}
        if verb == "DATA" and code == 354:
            msg = b"Subject: t" + eol + eol + b"body" + eol
            if dk == "over":
                msg = b"Subject: t" + eol + eol + b"a body that is longer than twenty bytes" + eol
            elif dk == "hops":
                msg = b"".join(b"Received: by hop%d" % i + eol for i in range(100)) + msg
            s.send(msg + b"." + eol)
            step["data250"] = 1 if s.reply() == 250 else 0
        steps.append(step)
        if code is None:
            break
    s.send(b"QUIT" + eol)
    s.close()
    return {"idx": idx, "steps": steps, "wire": wire, "eol": len(eol), "dk": dk}


def attach_submissions(rec, subs, cfg):
    """map the envelopes the queue program received to the DATA steps, and envelope strings back to abstract addresses"""
    datasteps = [st for st in rec["steps"] if st["verb"] == "DATA" and st["reply"] == "3"]
    for st in rec["steps"]:
        st["sub"] = []
    extra = 0
    lipdom = ".".join(cfg["lip"])
    for k, sub in enumerate(subs):
        sender, rcpts, complete = sessions.parse_envelope(sub["env"])
        if not complete:
            continue
        if k >= len(datasteps):
            extra += 1
            continue
        # candidates: every mailbox mentioned so far in this session
        cand = {}
        for st in rec["steps"]:
            if st["verb"] in ("MAIL", "RCPT"):
                mb = st["mb"]
                a = st["a"]
                forms = [(mb, a, 0)]
                if a["lit"] and lipdom:
                    sa = dict(a, dom=cfg["lip"], lit=0)
                    forms.append((mb.split("@")[0] + "@" + lipdom, sa, 0))
                for text, aa, _ in list(forms):
                    forms.append((text + "@relay.suffix.test", aa, 1))
                for text, aa, sfx in forms:
                    cand.setdefault(text.encode("latin1"), (aa, sfx))
        unknown = {"loc": "?", "dom": ["unknown"], "noat": 0, "long": 0, "lit": 0, "edge": 0}
        s_a, _ = cand.get(sender, (unknown, 0))
        rc = []
        for r in rcpts:
            aa, sfx = cand.get(r, (unknown, 0))
            rc.append({"a": aa, "sfx": sfx})
        datasteps[k]["sub"] = [{"s": s_a, "rc": rc}]
    rec["extra_submissions"] = extra
    return rec


def main():
    ap = argparse.ArgumentParser()
    ap.add_argument("--tier", default=os.environ.get("VERIF_TIER", "quick"))
    ap.add_argument("--replay")
    a = ap.parse_args()
    ck = Check("C08", a.tier)
    thorough = a.tier == "thorough"

    cfgf = ck.scratch.path("SmtpModel.cfg")
    with open(cfgf, "w") as f:
        f.write("SPECIFICATION Spec\nCONSTANT MaxCmds = %d\nINVARIANT Sound\n" % (8 if thorough else 6))
    res = need_ok(tlc("SmtpModel", cfgf, workers=NCPU, timeout=1500, heap="8g"), "SmtpModel")
    ck.add_tlc("SmtpModel", res)
    if res.violated:
        ck.model_violation("SmtpModel", res)

    tree = build_tree(ck.scratch, split=3)
    qq = sessions.QQDir(ck.scratch.path("qq"))
    base_env = dict(os.environ)
    base_env.update({"TCPREMOTEIP": "192.0.2.7", "TCPREMOTEHOST": "client.test", "TCPLOCALHOST": "mx.test.example", "TCPLOCALIP": "192.0.2.1"})
    base_env.pop("RELAYCLIENT", None)
    rng = ck.rng
    cfgs = configs()
    cmds = [(v, None) for v in ("HELO", "EHLO", "RSET", "NOOP", "VRFY", "HELP", "XXXX", "DATA")] + [("MAIL", s) for s in SENDERS] + [("RCPT", r) for r in RCPTS]
    small = [("HELO", None), ("RSET", None), ("NOOP", None), ("DATA", None), ("MAIL", SENDERS[0]), ("MAIL", SENDERS[1]), ("MAIL", SENDERS[3]),
             ("RCPT", RCPTS[0]), ("RCPT", RCPTS[1]), ("RCPT", RCPTS[5]), ("RCPT", RCPTS[8])]
    allrecs, cfgrecs = [], []
    if a.replay:
        case = json.load(open(a.replay))["case"]
        plan = [(case["cfg"] - 1, [[(st["verb"], st["a"] if st["verb"] in ("MAIL", "RCPT") else None) for st in case["steps"]]])]
    else:
        plan = []
        for ci, cfg in enumerate(cfgs):
            seqs = []
            if ci == 0:
                core = [c for c in cmds if c[0] not in ("EHLO", "VRFY", "HELP")]
                for n in (1, 2):
                    seqs += [list(s) for s in itertools.product(cmds, repeat=n)]
                if not thorough:
                    # quick: triples over a representative third of the shapes (every verb class, every kind of address)
                    pick = lambda xs, f: [x for x in xs if f(x)]
                    core = [c for c in core if c[1] is None and c[0] != "XXXX"] + \
                           [("MAIL", x) for x in (SENDERS[0], SENDERS[1], SENDERS[3], SENDERS[-1])] + \
                           [("RCPT", x) for x in (RCPTS[0], RCPTS[5], RCPTS[8], RCPTS[9], RCPTS[-2], RCPTS[-1])]
                seqs += [list(s) for s in itertools.product(core, repeat=3)]
            else:
                for n in (2, 3):
                    seqs += [list(s) for s in itertools.product(small, repeat=n)]
            for _ in range((3000 if thorough else 700) if ci == 0 else (1200 if thorough else 350)):
                n = rng.randint(4, 9)
                seqs.append([rng.choice(cmds if rng.random() < 0.5 else small) for _ in range(n)])
            plan.append((ci, seqs))
    idx = 0
    for ci, seqs in plan:
        cfg = cfgs[ci]
        write_config(tree, cfg, rng)
        jobs = []
        for seq in seqs:
            idx += 1
            jobs.append((idx, seq, rng.randrange(1 << 30), json.load(open(a.replay))["case"].get("dk", "normal") if a.replay else "normal"))
        if ci == 0 and not a.replay:
            # messages that are refused after 354 (too large, too many hops, the queue program failing): the DATA has ended the
            # transaction all the same - every continuation of up to three commands after MAIL RCPT DATA-with-such-a-message
            s2 = [("DATA", None), ("MAIL", SENDERS[0]), ("RCPT", RCPTS[0]), ("RSET", None), ("NOOP", None)]
            for dk in ("over", "hops", "qtemp", "qperm"):
                for tail in itertools.product(s2, repeat=3 if thorough else 2):
                    idx += 1
                    jobs.append((idx, [("MAIL", SENDERS[0]), ("RCPT", RCPTS[0]), ("DATA", None)] + list(tail) + [("DATA", None)], rng.randrange(1 << 30), dk))
        recs = sessions.pmap(lambda j: run_session(tree, qq, base_env, j[0], cfg, j[1], j[2], j[3]), jobs, workers=NCPU)
        subs = qq.collect()
        for r in recs:
            attach_submissions(r, subs.get("s%d" % r["idx"], []), cfg)
            r["cfg"] = ci + 1
            allrecs.append(r)
        # the same sessions fully pipelined (everything written at once, bodies where DATA was accepted): replies must be the same
        if not a.replay:
            plain = [r for r in recs if r.get("dk", "normal") == "normal"]
            sample = plain if len(plain) < 1500 else rng.sample(plain, 1500)

            def piped(r):
                env = dict(base_env)
                env.update(qq.env("p%d" % r["idx"]))
                if cfg["relay"] == "empty":
                    env["RELAYCLIENT"] = ""
                elif cfg["relay"] == "suffix":
                    env["RELAYCLIENT"] = "@relay.suffix.test"
                eol = b"\r\n" if r["eol"] == 2 else b"\n"
                data = b""
                for line, st in zip(r["wire"], r["steps"]):
                    data += line.encode("latin1") + eol
                    if st["verb"] == "DATA" and st["reply"] == "3":
                        data += b"Subject: t" + eol + eol + b"body" + eol + b"." + eol
                data += b"QUIT" + eol
                out, rc, to = sessions.run_daemon([tree.bin("qmail-smtpd")], data, env, cwd=tree.root)
                codes = [c for c, _ in sessions.smtp_replies(out)]
                want = [220]
                for st in r["steps"]:
                    if st["reply"] == "0":
                        break
                    want.append(int(st["reply"]))
                    if st["verb"] == "DATA" and st["reply"] == "3":
                        want.append(2 if st["data250"] else -1)
                got = [c // 100 for c in codes]
                return r, [want[0] // 100] + want[1:], got[: len(want)]
            for r, want, got in sessions.pmap(piped, sample, workers=NCPU):
                w2 = [x for x in want if x != -1]
                if len(got) >= len(want) and any(x != y for x, y in zip(want, got) if x != -1):
                    ck.violation("PipelinedSessionAnswersDiffer:cfg=%d:%s" % (ci + 1, "/".join(r["wire"])[:80]),
                                 "interactive reply classes %s, pipelined %s for %s" % (want, got, r["wire"][:8]), {"cfg": ci + 1, "steps": r["steps"]})
            qq.collect()
        cfgrecs.append(cfg)

    for r in allrecs:
        ck.count((r["cfg"], tuple(r["wire"])), nontrivial=any(st["verb"] == "RCPT" for st in r["steps"]))
    recfile, cf = ck.scratch.path("c08.ndjson"), ck.scratch.path("c08cfg.ndjson")
    write_ndjson(recfile, [{"cfg": r["cfg"], "steps": [{"verb": s["verb"], "a": s["a"], "reply": s["reply"], "sub": s["sub"]} for s in r["steps"]]} for r in allrecs])
    write_ndjson(cf, cfgs)
    bad, vres = tlc_validate_records("SmtpSessionRec", "SmtpSessionRec.cfg", recfile, len(allrecs), chunk=300, env={"CFGS": cf}, heap="10g")
    ck.add_tlc("SmtpSessionRec", vres)
    ck.cov["traces_validated_against_impl"] = len(allrecs)
    ck.cov["configurations"] = len(cfgs)
    ck.cov["messages_submitted"] = sum(1 for r in allrecs for s in r["steps"] if s["sub"])
    for r in allrecs:
        if r.get("extra_submissions"):
            ck.violation("MessageSubmittedWithoutAcceptedData:cfg=%d:%s" % (r["cfg"], "/".join(r["wire"])[:80]), "queue program received a complete envelope without an accepted DATA", r)
    for r in [x for x in allrecs if any(s["sub"] for s in x["steps"])][:3]:
        ck.sample({"cfg": r["cfg"], "wire": r["wire"], "replies": [s["reply"] for s in r["steps"]], "submitted": [s["sub"] for s in r["steps"] if s["sub"]][:1]})
    best = {}
    for i, why in bad:
        r = allrecs[i - 1]
        why = why.strip('"')
        if why not in best or len(r["wire"]) < len(best[why]["wire"]):
            best[why] = r
    for why, r in sorted(best.items()):
        ck.violation("%s:cfg=%d:%s" % (why, r["cfg"], "/".join(w[:30] for w in r["wire"])[:120]),
                     "session %s -> replies %s" % ([w[:60] for w in r["wire"]], [s["reply"] for s in r["steps"]]), {"cfg": r["cfg"], "steps": r["steps"], "dk": r.get("dk", "normal")})
    ck.cov["sessions_with_a_message_refused_after_354"] = sum(1 for r in allrecs if r.get("dk", "normal") != "normal")
    ck.cov["rule"] = ("every command sequence up to length 3 over 25 commands (8 verbs, MAIL x 5 sender shapes, RCPT x 12 recipient shapes) under the base configuration, "
                      "every sequence of length 2-3 over 11 commands under 7 other configurations, seeded sequences of length 4-9 under all; arguments rendered with random case, "
                      "source routes, bracketless, quoted, escaped, parameters; CRLF or LF line ends; then replayed pipelined; non-trivial = contains RCPT; distinct by (cfg, wire text)")
    ck.assumptions += ["the mailbox an argument denotes is known by construction (rendering is harness code); the inverse parse is C17's subject",
                       "127.0.0.1 is an address of this host (IP-literal substitution)", "addresses of 900 bytes and more count as over the length limit"]
    ck.finish()


if __name__ == "__main__":
    main_wrapper(main)
