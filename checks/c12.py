#!/usr/bin/env python3
"""C12 Mailbox deliveries are complete or absent: maildir atomic, mbox rolled back.

  model   spec/Maildir.tla (P: maildir_child() as a sequence of file-system calls over a file-system model with
          Kill at every call, Crash in every state with un-synced data optionally lost, one failing call; two
          deliverers with colliding names) and spec/Mbox.tla (P: mailfile() + gfrom + From_ line, 1-3 deliverers,
          every interleaving, one failing or short write / failing fsync); invariants = the monitors of
          spec/MailStore.tla (E: maildir(5), mbox(5)): NewIsComplete, SuccessIffNew, UniqueName / NoInterleave,
          ReaderInverts (incl. FromLineOneWord), RollBack.  Wrong variants (fsync removed, link before fsync /
          close, no lock, no truncate, mboxo quoting, ...) must be rejected by the same monitors (sanity).
  impl    the real qmail-local as an unprivileged uid, default delivery ./Maildir/ or ./Mailbox:
          * bulk: every message of <= L lines over {From_x, >From_x, >>From_x, x, "", F} with and without
            final newline, sizes around the 1024-byte buffers, seeded random messages with NUL / 8-bit bytes,
            senders with space / tab / newline, both formats, several previous mbox contents
          * maildir writer stepped call by call through the shim's gate: listing of new/ and tmp/ after every
            call, kill before every call, every single failing open / write / fsync / close / link / unlink,
            short writes, a name collision in new/ and in tmp/; concurrent un-gated deliveries
          * direction 3: the order of calls of clean runs is lifted into Maildir.tla (LiftedProgs) and TLC
            explores every crash point and loss choice of that order
          * mbox: every single failing / short write, failing fsync and close (VERIF_FAULT); 2 and 3 processes
            stepped through seeded interleavings by the gate, with and without a failing write
  verdict TLC evaluates the monitors of MailStore.tla on every record (spec/MaildirRec.tla, spec/MboxRec.tla)
"""
import sys, os, json, argparse, queue, re, threading, time, random, concurrent.futures
sys.path.insert(0, os.path.join(os.path.dirname(os.path.abspath(__file__)), "..", "lib"))
from vlib import *
import sandbox, sessions
import c12_util as U

# Witness keys (regexes) of confirmed violations on the unchanged tree that have been reported and are
# waiting for a decision; they are printed as PENDING-FINDING and do not fail the check.
PENDING_FINDINGS = []

KINDS = [b"From x", b">From x", b">>From x", b"x", b"", b"F"]
SENDERS = [b"s@sender.example", b"", b"a b@s.example", b"a\tb@s.example", b"a\nb@s.example",
           b"x@y.example\nFrom evil@h Sat Jan 03 01:05:34 1996", b'"q"uote@s.example', b"back\\slash@s.example",
           b"#@[]", b"caf\xc3\xa9@s.example", b" @s.example", b"nodomain", b"two  spaces\t\n@s.example"]
RCPTS = [(b"u", b"test.example"), (b"u\nx", b"test.example"), (b"u x-y", b"sub.test.example")]
OLD1 = b"From old@else.example Sat Jan 03 01:05:34 1996\nReturn-Path: <old@else.example>\nDelivered-To: u@test.example\nSubject: old\n\n>From the past\n\n\n"
OLD2 = OLD1 + b"From MAILER-DAEMON Sat Jan 03 01:05:35 1996\nReturn-Path: <>\nDelivered-To: u@test.example\n\n"
OLD3 = b"From other@mda.example Sat Jan  3 01:05:34 1996\nSubject: written by an mboxo writer, no blank line\n\nbody\n"
BEFORES = [b"", OLD1, OLD2, OLD3]


def B(x):
    return list(x)


def enum_messages(L):
    out, seen, level = [], set(), [[]]
    def add(m):
        if m not in seen:
            seen.add(m)
            out.append(m)
    add(b"")
    for _ in range(L):
        level = [ls + [k] for ls in level for k in KINDS]
        for ls in level:
            t = b"\n".join(ls)
            add(t + b"\n")
            add(t)
    return out


PIECES = [b"From ", b">From ", b">>>From ", b" From ", b"From\t", b"FROM ", b"Fro", b"From", b">", b">>", b"", b"x", b"From: a@b", b"\0", b"\xff\xfe", b"\r"]


def random_message(rng, size=None):
    lines = []
    total = 0
    want = size if size is not None else rng.choice([rng.randint(0, 80), rng.randint(0, 400), rng.randint(0, 2500)])
    while total < want:
        l = rng.choice(PIECES)
        if rng.random() < 0.7:
            l += bytes(rng.choice([rng.randrange(256), 120, 32, 62]) for _ in range(rng.choice([0, 1, 3, 20, 70, 300])))
        l = l.replace(b"\n", b"x")
        lines.append(l)
        total += len(l) + 1
    m = b"\n".join(lines) + b"\n"
    if size is not None:
        m = m[:size]
        m = m + b"y" * (size - len(m))
    elif rng.random() < 0.4:
        m = m[:-1]
    if b"Delivered-To: " in m:
        m = m.replace(b"Delivered-To: ", b"Delivered-Tx: ")
    return m


def maildir_cfg(path, procs, names, progs, faults, fullloss, msgs="SmallMsgs"):
    with open(path, "w") as f:
        f.write("SPECIFICATION Spec\nCONSTANTS\n Procs = {%s}\n Names = {%s}\n Msgs <- %s\n Progs <- %s\n MaxFaults = %d\n FullLoss = %s\n"
                "INVARIANT NewIsComplete\nINVARIANT SuccessIffNew\nINVARIANT UniqueName\nPROPERTY NewStable\n" % (
                    ", ".join(map(str, range(1, procs + 1))), ", ".join('"%s"' % n for n in names), msgs, progs, faults,
                    "TRUE" if fullloss else "FALSE"))
    return path


def mbox_cfg(path, procs, msgs, senders, befores, fixed, mut="none", bufcap=16, faults=1):
    with open(path, "w") as f:
        f.write("SPECIFICATION Spec\nCONSTANTS\n Procs = {%s}\n Msgs <- %s\n Senders <- %s\n Befores <- %s\n BufCap = %d\n MaxFaults = %d\n"
                " FixedInput = %s\n Mut = \"%s\"\nINVARIANT NoInterleave\nINVARIANT ReaderInverts\nINVARIANT RollBack\n" % (
                    ", ".join(map(str, range(1, procs + 1))), msgs, senders, befores, bufcap, faults, "TRUE" if fixed else "FALSE", mut))
    return path


def main():
    ap = argparse.ArgumentParser()
    ap.add_argument("--tier", default=os.environ.get("VERIF_TIER", "quick"))
    ap.add_argument("--replay")
    a = ap.parse_args()
    ck = Check("C12", a.tier)
    thorough = a.tier == "thorough"
    rng = ck.rng
    sc = ck.scratch

    # ------------------------------------------------------------------ model runs (in the background)
    model_jobs = []     # (name, module, cfg, expect_violation, env)
    model_jobs.append(("Maildir(1 deliverer, every byte lost)", "Maildir", maildir_cfg(sc.path("md1.cfg"), 1, ["a"], "DocProgs", 1, True), None, None))
    model_jobs.append(("Maildir(2 deliverers, colliding names)", "Maildir", maildir_cfg(sc.path("md2.cfg"), 2, ["a", "b"], "DocProgs", 1, False), None, None))
    if thorough:
        model_jobs.append(("Maildir(1 deliverer, two failing calls)", "Maildir", maildir_cfg(sc.path("md1f2.cfg"), 1, ["a"], "DocProgs", 2, True), None, None))
        model_jobs.append(("Mbox(3 deliverers, two failing calls)", "Mbox", mbox_cfg(sc.path("mb3f2.cfg"), 3, "Msgs2", "AllSenders", "AllBefores", True, faults=2), None, None))
        model_jobs.append(("Mbox(1 deliverer, 5-byte buffer)", "Mbox", mbox_cfg(sc.path("mb1c5.cfg"), 1, "Msgs2", "AllSenders", "BeforesQ", False, bufcap=5), None, None))
        model_jobs.append(("Maildir(3 deliverers, colliding names)", "Maildir", maildir_cfg(sc.path("md3.cfg"), 3, ["a", "b"], "DocProgs", 1, False, msgs="TinyMsgs"), None, None))
    for i in range(1, 6):
        model_jobs.append(("Maildir(Mutant%d)" % i, "Maildir", maildir_cfg(sc.path("mdm%d.cfg" % i), 1, ["a"], "Mutant%d" % i, 1, True),
                           "NewIsComplete" if i < 5 else "SuccessIffNew", None))
    model_jobs.append(("Maildir(Mutant6)", "Maildir", maildir_cfg(sc.path("mdm6.cfg"), 2, ["a"], "Mutant6", 1, False, msgs="TinyMsgs"), "NewStable", None))
    model_jobs.append(("Mbox(1 deliverer, <=%d lines)" % (4 if thorough else 3), "Mbox",
                       mbox_cfg(sc.path("mb1.cfg"), 1, "Msgs4" if thorough else "Msgs3", "SendersQ", "BeforesQ", False), None, None))
    model_jobs.append(("Mbox(1 deliverer, every sender and previous content)", "Mbox",
                       mbox_cfg(sc.path("mb1b.cfg"), 1, "Msgs3" if thorough else "Msgs2", "AllSenders", "AllBefores", False), None, None))
    model_jobs.append(("Mbox(3 deliverers, every interleaving)", "Mbox",
                       mbox_cfg(sc.path("mb3.cfg"), 3, "Msgs2", "AllSenders", "AllBefores", True), None, None))
    for mut, inv, procs, fixed in (("nolock", "NoInterleave", 2, True), ("notrunc", "RollBack", 2, True), ("mboxo", "ReaderInverts", 1, False),
                                   ("noblank", "ReaderInverts", 1, False), ("rawfrom", "ReaderInverts", 1, False)):
        model_jobs.append(("Mbox(Mut=%s)" % mut, "Mbox", mbox_cfg(sc.path("mbm-%s.cfg" % mut), procs, "Msgs2", "AllSenders", "BeforesQ", fixed, mut=mut), inv, None))
    model_results = {}

    def run_model(job):
        name, module, cfg, expect, env = job
        big = expect is None and ("<=" in name or "deliverers" in name or "every sender" in name)
        res = tlc(module, cfg, env=env, workers=(8 if big else 2), timeout=1500, heap=("4g" if big else "1g"),
                  metadir=sc.path("meta-" + re.sub(r"\W+", "_", name)))
        return job, res
    model_pool = concurrent.futures.ThreadPoolExecutor(max_workers=4)
    model_futs = [] if a.replay else [model_pool.submit(run_model, j) for j in model_jobs]

    # ------------------------------------------------------------------ real code
    tree = build_tree(sc, split=3)
    homes = sc.sub("homes")
    os.chmod(sc.dir, 0o755)
    os.chmod(homes, 0o755)
    msgdir = sc.sub("msgs")
    base_env = sandbox.shim_env(tree, root=homes)
    nslots = NCPU
    slots = queue.Queue()
    for i in range(nslots):
        slots.put({"i": i, "md": U.make_home(homes, "md%d" % i), "mb": U.make_home(homes, "mb%d" % i, maildir=False),
                   "sock": sc.path("gate%d.sock" % i), "msg": os.path.join(msgdir, "m%d" % i), "trace": sc.path("trace%d" % i)})

    def msgfile(slot, data, j=0):
        p = "%s.%d" % (slot["msg"], j)
        with open(p, "wb") as f:
            f.write(data)
        os.chmod(p, 0o644)
        return p

    def run_job(job):
        """One real execution (or one controlled group of executions) -> (job, record, info)."""
        slot = slots.get()
        try:
            mode = job["mode"]
            if mode in ("md", "mdg", "mb", "mbf"):
                msg, sender, local, domain = bytes(job["msg"]), bytes(job["sender"]), bytes(job["local"]), bytes(job["domain"])
                rcpt = local + b"@" + domain
                mf = msgfile(slot, msg)
            if mode == "md":
                U.clear_maildir(slot["md"])
                rc = U.run_local(tree, slot["md"], mf, sender, local, domain, "./Maildir/", U.plain_env())
                fin = U.listing(slot["md"], U.InoMap())
                rec = {"t": "d", "sender": B(sender), "rcpt": B(rcpt), "msg": B(msg), "pre": [], "ptmp": [], "s0": {"new": [], "tmp": []},
                       "steps": [], "fin": fin, "rc": rc, "killed": 0, "sync": 0, "clean": 1}
                return job, rec, {}
            if mode == "mdg":
                U.clear_maildir(slot["md"])
                pre_new = [("1.1.other", b"Return-Path: <o@else.example>\nDelivered-To: u@test.example\nolder message\n")] if job.get("pre") else []
                r = U.gated_maildir(tree, slot["sock"], base_env, slot["md"], mf, sender, local, domain, job["plan"], pre_new=pre_new)
                rec = {"t": "d", "sender": B(sender), "rcpt": B(rcpt), "msg": B(msg), "pre": r["pre"], "ptmp": r["ptmp"], "s0": r["s0"],
                       "steps": [{k: s[k] for k in ("c", "res", "ino", "new", "tmp")} for s in r["steps"]], "fin": r["fin"], "rc": r["rc"],
                       "killed": r["killed"], "sync": 1, "clean": 1 if job["plan"]["kind"] == "clean" else 0}
                return job, rec, {"events": r["events"], "ncalls": r["ncalls"]}
            if mode == "mdgrp":
                U.clear_maildir(slot["md"])
                other = b"Return-Path: <o@else.example>\nDelivered-To: u@test.example\nolder message\n"
                inos = U.InoMap()
                pre = [{"n": "1.1.other", "ino": inos(U.put_file(os.path.join(slot["md"], "Maildir", "new", "1.1.other"), other)), "d": B(other)}]
                procs = []
                for j, d in enumerate(job["dels"]):
                    mf = msgfile(slot, bytes(d["msg"]), j)
                    procs.append(U.spawn(U.local_argv(tree, slot["md"], bytes(d["sender"]), bytes(d["local"]), bytes(d["domain"]), "./Maildir/"), mf, U.plain_env()))
                rcs = [p.wait(timeout=30) for p in procs]
                fin = U.listing(slot["md"], inos)["new"]
                rec = {"t": "g", "pre": pre, "fin": fin,
                       "dels": [{"sender": d["sender"], "rcpt": B(bytes(d["local"]) + b"@" + bytes(d["domain"])), "msg": d["msg"], "rc": rc} for d, rc in zip(job["dels"], rcs)]}
                return job, rec, {}
            if mode in ("mb", "mbf"):
                before = bytes(job["before"])
                mbox = U.set_mbox(slot["mb"], before)
                inj = "none"
                info = {}
                if mode == "mb" and not job.get("trace"):
                    rc = U.run_local(tree, slot["mb"], mf, sender, local, domain, "./Mailbox", U.plain_env())
                else:
                    if os.path.exists(slot["trace"]):
                        os.unlink(slot["trace"])
                    open(slot["trace"], "w").close()
                    os.chmod(slot["trace"], 0o666)
                    env = dict(base_env)
                    env["VERIF_TRACE"] = slot["trace"]
                    if job.get("fault"):
                        env["VERIF_FAULT"] = job["fault"]
                        env["VERIF_FAULT_PROG"] = "qmail-local"
                    rc = U.run_local(tree, slot["mb"], mf, sender, local, domain, "./Mailbox", env)
                    dec = U.decided(sandbox.read_trace(slot["trace"]))
                    info["calls"] = [(e["c"], e.get("len", 0)) if (e.get("obj") or e.get("path") or "").endswith("/Mailbox") else ("-", 0) for e in dec]
                    for e in dec:
                        if e.get("inj"):
                            if e["c"] == "write":
                                inj = "wfail" if e.get("res", -1) < 0 else "short"
                            elif e["c"] in ("fsync", "close"):
                                inj = e["c"]
                            else:
                                inj = "other"
                after = U.read_file(mbox)
                rec = {"t": "s", "sender": B(sender), "rcpt": B(rcpt), "msg": B(msg), "before": B(before), "after": B(after), "rc": rc, "inj": inj}
                return job, rec, info
            if mode == "mbc":
                before = bytes(job["before"])
                mbox = U.set_mbox(slot["mb"], before)
                dels = []
                for j, d in enumerate(job["dels"]):
                    dels.append((msgfile(slot, bytes(d["msg"]), j), bytes(d["sender"]), bytes(d["local"]), bytes(d["domain"])))
                r = U.gated_mbox(tree, slot["sock"], base_env, slot["mb"], dels, random.Random(job["seed"]), fault=job.get("fault"), mode=job.get("sched", "random"))
                after = U.read_file(mbox)
                rec = {"t": "c", "before": B(before), "after": B(after), "ev": r["ev"], "rb": r["rb"],
                       "dels": [{"sender": d["sender"], "rcpt": B(bytes(d["local"]) + b"@" + bytes(d["domain"])), "msg": d["msg"], "rc": rc, "inj": inj}
                                for d, rc, inj in zip(job["dels"], r["rcs"], r["inj"])]}
                return job, rec, {"sched": r["sched"]}
            raise Infra("unknown job mode %r" % mode)
        finally:
            slots.put(slot)

    def J(mode, msg, sender, rc=(b"u", b"test.example"), **kw):
        d = {"mode": mode, "msg": B(msg), "sender": B(sender), "local": B(rc[0]), "domain": B(rc[1])}
        d.update(kw)
        return d

    results = []      # (job, rec, info)
    lifted = set()
    if a.replay:
        case = json.load(open(a.replay))["case"]
        results.append(run_job(case))
    else:
        # ---- stage 1: clean gated maildir runs and clean traced mbox runs (they tell where the calls are)
        big1, big2, big3 = random_message(rng, 970), random_message(rng, 1100), random_message(rng, 2050)
        gmsgs = [b"", b"x", b"From x\n>From y\n", big1, big3] + ([b"x\n", big2, random_message(rng, 3100), b"\n"] if thorough else [])
        s1 = [J("mdg", m, SENDERS[i % 3 + 1] if i else SENDERS[0], plan={"kind": "clean"}, pre=(i % 2)) for i, m in enumerate(gmsgs)]
        fmsgs = [b"", b"x", b"From x\nx", big2, big3] + ([b"\n\n", big1, random_message(rng, 4200)] if thorough else [])
        s1 += [J("mb", m, SENDERS[(i + 2) % 5], before=B(BEFORES[i % 2]), trace=1) for i, m in enumerate(fmsgs)]
        r1 = sessions.pmap(run_job, s1)
        results += r1
        jobs = []
        for job, rec, info in r1:
            if job["mode"] == "mdg":
                evs = info["events"]
                if rec["rc"] == 0:
                    lifted.add(tuple(e["c"] for e in evs) + ("exit0",))
                mk = lambda plan: dict(job, plan=plan)
                for k in range(1, info["ncalls"] + 1):
                    jobs.append(mk({"kind": "kill", "k": k}))
                    c, ln = evs[k - 1]["c"], evs[k - 1]["len"]
                    errs = {"open": [28, 13], "write": [28, 5, 122], "fsync": [5, 28], "close": [5, 122], "link": [17, 28, 31, 5], "unlink": [5]}.get(c, [5])
                    if not thorough:
                        errs = errs[:2]
                    for e in errs:
                        jobs.append(mk({"kind": "fail", "k": k, "errno": e}))
                    if c == "write":
                        for n in sorted({1, ln // 2, ln - 1} - {0, ln}):
                            jobs.append(mk({"kind": "short", "k": k, "n": n}))
                jobs.append(mk({"kind": "coll_new"}))
                jobs.append(mk({"kind": "coll_tmp"}))
            elif job["mode"] == "mb":
                for k, (c, ln) in enumerate(info["calls"], 1):
                    whats = {"write": ["28", "5", "short1", "short%d" % (ln // 2), "short%d" % (ln - 1)], "fsync": ["5", "28"], "close": ["5"]}.get(c, [])
                    for w in whats:
                        if w.startswith("short") and not (0 < int(w[5:]) < ln):
                            continue
                        for bi in ((0, 1, 2) if thorough else (job["before"] and 1 or 0,)):
                            j2 = dict(job, mode="mbf", fault="%d:%s" % (k, w), before=B(BEFORES[bi]))
                            j2.pop("trace", None)
                            jobs.append(j2)
        # ---- bulk: both formats on the enumerated and the random messages
        msgs = enum_messages(4 if thorough else 3)
        nb = 0
        for i, m in enumerate(msgs):
            jobs.append(J("md", m, SENDERS[i % len(SENDERS)], RCPTS[0] if i % 7 else RCPTS[1 + i % 2]))
            jobs.append(J("mb", m, SENDERS[(i + 3) % len(SENDERS)], RCPTS[0] if i % 5 else RCPTS[1 + i % 2], before=B(BEFORES[i % len(BEFORES)])))
        for s in SENDERS:
            for m in (b"", b"x", b"From x\n\n", b">From x\nFrom x"):
                for rc in RCPTS:
                    jobs.append(J("md", m, s, rc))
                    jobs.append(J("mb", m, s, rc, before=B(BEFORES[len(m) % 2])))
        sizes = list(range(900, 1101, 1 if thorough else 4)) + list(range(2040, 2061)) + ([3070, 3072, 4096, 8192, 100000] if thorough else [3072])
        for i, n in enumerate(sizes):
            m = random_message(rng, n)
            jobs.append(J("md", m, SENDERS[i % 4]))
            jobs.append(J("mb", m, SENDERS[i % 4], before=B(BEFORES[i % 2])))
        for i in range(1500 if thorough else 250):
            m = random_message(rng)
            jobs.append(J("md", m, rng.choice(SENDERS), rng.choice(RCPTS)))
            jobs.append(J("mb", m, rng.choice(SENDERS), rng.choice(RCPTS), before=B(rng.choice(BEFORES))))
        # ---- concurrent maildir deliveries (un-gated)
        for i in range(150 if thorough else 25):
            k = 2 + i % 2
            jobs.append({"mode": "mdgrp", "dels": [{"msg": B(b"msg %d of group %d\n" % (j, i) + random_message(rng, rng.choice([0, 30, 1500]))), "sender": B(SENDERS[(i + j) % 4]),
                                                   "local": B(b"u"), "domain": B(b"test.example")} for j in range(k)]})
        # ---- concurrent mbox deliveries under controlled interleaving
        for i in range(600 if thorough else 120):
            k = 2 if i % 3 else 3
            dels = []
            for j in range(k):
                body = random_message(rng, rng.choice([0, 20, 1000, 1100, 2100]))
                dels.append({"msg": B(b"Subject: %d.%d\nFrom here\n" % (i, j) + body), "sender": B(SENDERS[(i + j) % 5]), "local": B(b"u"), "domain": B(b"test.example")})
            fault = None
            if i % 2:
                fault = {"p": rng.randrange(k), "w": rng.choice([1, 1, 2, 3]), "what": rng.choice(["fail 28", "fail 28", "fail 5", "short 7"])}
            jobs.append({"mode": "mbc", "dels": dels, "before": B(BEFORES[i % 2]), "seed": rng.randrange(1 << 30), "fault": fault,
                         "sched": "roundrobin" if i % 4 == 0 else "random"})
        results += sessions.pmap(run_job, jobs)

    # ------------------------------------------------------------------ direction 3: the lifted call order
    lifted_res = []
    if lifted:
        progfile = sc.path("progs.ndjson")
        write_ndjson(progfile, [{"prog": list(p)} for p in sorted(lifted)])
        orders = "; ".join(",".join(p) for p in sorted(lifted))
        for nm, cfg in (("1 deliverer, every byte lost", maildir_cfg(sc.path("mdl1.cfg"), 1, ["a"], "LiftedProgs", 1, True)),
                        ("2 deliverers, one name", maildir_cfg(sc.path("mdl2.cfg"), 2, ["a"], "LiftedProgs", 1, False, msgs="TinyMsgs"))):
            res = need_ok(tlc("Maildir", cfg, env={"PROGS": progfile}, workers=4, timeout=900, heap="2g", metadir=sc.path("meta-lifted")),
                          "Maildir with lifted call orders")
            ck.add_tlc("Maildir(call orders lifted from clean runs of the real writer: %s; %s)" % (orders, nm), res)
            lifted_res.append(res)
        ck.cov["lifted_call_orders"] = [list(p) for p in sorted(lifted)]

    # ------------------------------------------------------------------ verdict by TLC
    mdrecs = [(j, r, i) for (j, r, i) in results if r["t"] in ("d", "g")]
    mbrecs = [(j, r, i) for (j, r, i) in results if r["t"] in ("s", "c")]
    bad_all = []
    for name, module, recs in (("md", "MaildirRec", mdrecs), ("mb", "MboxRec", mbrecs)):
        if not recs:
            continue
        recfile = sc.path("c12-%s.ndjson" % name)
        write_ndjson(recfile, [r for (_, r, _) in recs])
        bad, vres = tlc_validate_records(module, module + ".cfg", recfile, len(recs), chunk=40, workers=8)
        ck.add_tlc(module, vres)
        for idx, why in bad:
            bad_all.append((why.strip('"'), recs[idx - 1]))
    ck.cov["traces_validated_against_impl"] = len(results)

    def describe(job):
        m = job["mode"]
        if m in ("md", "mb"):
            return "%s:msg=%s,sender=%s" % ("maildir" if m == "md" else "mbox", ",".join(map(str, job["msg"][:20])), ",".join(map(str, job["sender"][:12])))
        if m == "mdg":
            p = job["plan"]
            return "maildir:plan=%s%s,msglen=%d" % (p["kind"], ("@%d" % p["k"]) if "k" in p else "", len(job["msg"])) + \
                   ((",errno=%d" % p["errno"]) if "errno" in p else "")
        if m == "mbf":
            return "mbox:fault=%s,msglen=%d" % (job["fault"], len(job["msg"]))
        if m == "mdgrp":
            return "maildir:concurrent=%d" % len(job["dels"])
        return "mbox:concurrent=%d,seed=%d,fault=%s" % (len(job["dels"]), job["seed"], (job.get("fault") or {}).get("what", "none"))

    def size_of(job):
        return len(job.get("msg", [])) + sum(len(d["msg"]) for d in job.get("dels", [])) + (1000 if job["mode"] in ("mbc", "mdgrp") else 0)

    for (job, rec, info) in results:
        trivial = job["mode"] in ("md", "mb") and not job["msg"]
        ck.count(json.dumps(job, sort_keys=True), nontrivial=not trivial)
    for (job, rec, info) in results[:1] + results[len(results) // 2:len(results) // 2 + 2] + results[-2:]:
        s = {"job": describe(job), "rc": rec.get("rc", [d["rc"] for d in rec.get("dels", [])])}
        if rec["t"] == "d":
            s["calls"] = ["%s=%d" % (x["c"], x["res"]) for x in rec["steps"]]
            s["new_after"] = [[e["n"], len(e["d"])] for e in rec["fin"]["new"]]
        if rec["t"] == "s":
            s["inj"], s["grew_by"] = rec["inj"], len(rec["after"]) - len(rec["before"])
        if rec["t"] == "c":
            s["file_changing_calls"] = ["%d:%s" % (e["p"], e["c"]) for e in rec["ev"]]
        ck.sample(s)

    # ------------------------------------------------------------------ model results
    for fut in model_futs:
        (name, module, cfg, expect, env), res = fut.result()
        need_ok(res, name)
        if expect is None:
            ck.add_tlc(name, res)
            if res.violated:
                ck.model_violation(name, res)
        else:
            if expect not in res.violated:
                raise Infra("sanity: the wrong variant %s is not rejected by %s (violated: %s)" % (name, expect, res.violated))
            ck.cov.setdefault("wrong_variants_rejected", []).append("%s -> %s" % (name, expect))
    model_pool.shutdown()

    ck.cov["rule"] = ("real qmail-local runs: every message of <= %d lines over {From_x,>From_x,>>From_x,x,'',F} with/without final newline in both formats, "
                      "message sizes 900-1100 / 2040-2060 / 3072, seeded random messages (NUL, 8-bit, From_ look-alikes), %d senders (space, tab, newline, "
                      "quote, backslash, empty), %d previous mbox contents; gated maildir writer: clean, kill before every call, every single failing "
                      "open/write/fsync/close/link/unlink, short writes, name collisions in new/ and tmp/; mbox: every failing/short write, fsync, close; "
                      "2-3 gated concurrent mbox deliveries in seeded interleavings with/without a failing write; concurrent maildir deliveries. "
                      "distinct by the complete job description; trivial = bulk run with the empty message" % (4 if thorough else 3, len(SENDERS), len(BEFORES)))
    ck.cov["exhaustive"] = False
    ck.cov["by_mode"] = {m: sum(1 for (j, _, _) in results if j["mode"] == m) for m in ("md", "mb", "mdg", "mbf", "mdgrp", "mbc")}
    ck.assumptions += ["directory operations are synchronous; after a crash a file keeps at least what was fsynced AND closed (maildir(5) 'NFS-writing') and at most what was written",
                       "the 24-hour / 30-second alarms are not exercised (the gate turns alarm() off)",
                       "a failed fsync() of the mbox may be answered by roll-back + 111 or by a complete entry + 0 (the statement only speaks of failed writes)",
                       "interleavings of the real mbox deliveries are seeded random / round-robin, not exhaustive (the model's are exhaustive)"]

    def report(key, desc, case):
        for pat in PENDING_FINDINGS:
            if re.fullmatch(pat, key):
                print("PENDING-FINDING property=C12 %s: %s" % (key, desc))
                ck.assumptions.append("pending finding (reported, not yet decided): " + key)
                return
        ck.violation(key, desc, case)

    for res in lifted_res:
        if res.violated:
            m = re.findall(r"prog = (<<[^>]*>>)", res.out)
            prog = re.sub(r'[" ]', "", m[-1]) if m else "?"
            report("Lifted:%s:order=%s" % (res.violated[0], prog),
                   "the order of file-system calls of a clean run of the real maildir writer, explored by TLC with kill / crash / loss / "
                   "one failing call at every point, violates %s" % res.violated[0], None)
            break
    best = {}
    for why, (job, rec, info) in bad_all:
        cls = why + ":" + job["mode"]
        if cls not in best or size_of(job) < size_of(best[cls][0]):
            best[cls] = (job, rec, info)
    for cls, (job, rec, info) in sorted(best.items()):
        why = cls.split(":")[0]
        key = "%s:%s" % (why, describe(job))
        if rec["t"] == "d":
            desc = "rc=%s killed=%s calls=%s new/ afterwards=%s" % (rec["rc"], rec["killed"], ["%s=%d" % (x["c"], x["res"]) for x in rec["steps"]],
                                                                   [(e["n"], bytes(e["d"][:60])) for e in rec["fin"]["new"]])
        elif rec["t"] == "g":
            desc = "rcs=%s entries=%s" % ([d["rc"] for d in rec["dels"]], [(e["n"], len(e["d"])) for e in rec["fin"]])
        elif rec["t"] == "s":
            desc = "rc=%s inj=%s before=%d bytes, after=%r" % (rec["rc"], rec["inj"], len(rec["before"]), bytes(rec["after"][len(rec["before"]):][:200]))
        else:
            desc = "rcs=%s inj=%s calls=%s before=%d after=%d bytes" % ([d["rc"] for d in rec["dels"]], [d["inj"] for d in rec["dels"]],
                                                                        ["%d:%s" % (e["p"], e["c"]) for e in rec["ev"]], len(rec["before"]), len(rec["after"]))
        report(key, desc, job)
    ck.finish()


if __name__ == "__main__":
    main_wrapper(main)
