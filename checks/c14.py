#!/usr/bin/env python3
"""C14 Bounces go back once, to the sender, and can neither loop nor be forged.

  model   spec/BounceModel.tla: addbounce() (transcribed, spec/Bounce.tla AddBounceP) yields exactly one paragraph per failed
          recipient for EVERY failure text over a hostile alphabet up to a length bound; spec/QSend.tla + spec/QSendMon.tla:
          the chain bounce -> double bounce -> discard (clauses prefixed C14)
  impl    histories on the real qmail-send/qmail-clean/qmail-queue (gate): recipients failing permanently in every
          combination/order (or temporarily past the queue lifetime), hostile failure texts on the report channels, every
          sender form (ordinary, empty, #@[], VERP owner-@host-@[]), bouncefrom/bouncehost/doublebounceto/doublebouncehost/
          virtualdomains settings; every bounce is followed through the real queue until it is delivered, bounces again or is discarded
  verdict spec/QSendTrace.tla (envelope of every queued bounce, one notice paragraph per failed recipient judged on the BYTES
          of the queued notice by Bounce!NoticeVerdict, order bounce record -> notice queued -> record removed, discard only of a
          failing double bounce)
"""
import sys, os, json, argparse
sys.path.insert(0, os.path.join(os.path.dirname(os.path.abspath(__file__)), "..", "lib"))
from vlib import *
import histories, qsengine


def gen_bounce_history(rng, idx, thorough, kind=None):
    nmsg = rng.choice([1, 1, 2])
    cfgk = rng.choice(["default", "default", "custom", "vdom"]) if kind is None else kind
    controls, dbto, pfx = {}, b"postmaster@test.example", b""
    if cfgk == "custom":
        controls = {"bouncefrom": "MAILER.X", "bouncehost": "bh.test", "doublebounceto": "dbl.admin", "doublebouncehost": "dbh.test"}
        dbto = b"dbl.admin@dbh.test"
    elif cfgk == "vdom":
        controls = {"virtualdomains": "virt.test:vpfx\nuser@uv.test:upfx\n"}
        pfx = b"vpfx"
    elif cfgk == "vwild":          # a dot-suffix entry
        controls = {"virtualdomains": ".sub.test:spfx\n"}
        pfx = b"spfx"
    elif cfgk == "vcatch":         # the catch-all entry: every address that is not local is handed to the local user cpfx
        controls = {"virtualdomains": ":cpfx\n"}
        pfx = b"cpfx"
    messages, outcomes = [], {}
    rid = 0
    for m in range(nmsg):
        nr = rng.choice([1, 2, 3, 4])
        rcpts = []
        for _ in range(nr):
            rid += 1
            dom = rng.choice(["local.test", "remote.test", "remote.test"] + (["virt.test"] if cfgk == "vdom" else []) + (["x.sub.test", "y.x.sub.test"] if cfgk == "vwild" else []))
            a = "b%dr%d@%s" % (idx, rid, dom)
            rcpts.append(a.encode())
            key = ("vpfx-" + a) if dom == "virt.test" else ("spfx-" + a) if dom.endswith(".sub.test") else ("cpfx-" + a) if (cfgk == "vcatch" and dom != "local.test") else a
            outcomes[key] = rng.choice(["D", "D", "D", "K", "ZD", "GD", "Z" * 12])
        sender = rng.choice([b"bs%d@origin.test" % idx, b"bs%d@origin.test" % idx, b"", b"#@[]", b"list%d-owner-@lists.test-@[]" % idx])
        if idx % 5 == 3:
            # a long envelope sender (the info file is read through a 128-byte buffer: 127, 128, 254, 255, 256, 300, 900 bytes)
            ln = [127, 128, 254, 255, 256, 300, 900][(idx // 5) % 7]
            sender = b"bs%d-" % idx + b"l" * (ln - len(b"bs%d-@origin.test" % idx)) + b"@origin.test"
        messages.append({"body": b"Subject: b%d\n\noriginal body %d\n" % (idx, m), "sender": sender, "rcpts": rcpts})
    # what happens to the bounces themselves
    for s in ("bs%d@origin.test" % idx, "list%d-owner-@lists.test" % idx, dbto.decode()):
        if cfgk == "vcatch":
            s = "cpfx-" + s          # (as delivered; the envelopes of the notices carry the plain addresses)
        outcomes[s] = rng.choice(["K", "K", "D", "D", "ZK", "ZD"])
    script = []
    for m in range(nmsg):
        script.append(("inject", m))
    lifetime = rng.choice([604800, 604800, 0, 150, 500])
    for _ in range(rng.randint(3, 7)):
        script.append(("answer", rng.choice(["fifo", "lifo", "random"])))
        if rng.random() < 0.6:
            script.append(("nextdue", 0))
    return {"id": "bounce%d" % idx, "seed": rng.randrange(1 << 30), "messages": messages, "outcomes": outcomes, "script": script, "strict": 1 if cfgk in ("default", "custom") else 0,
            "conc": (10, 20), "announce": (120, 120), "hostile": 1, "controls": controls, "dbto": dbto, "pfx": pfx, "lifetime": lifetime, "drain_rounds": 60}


def main():
    ap = argparse.ArgumentParser()
    ap.add_argument("--tier", default=os.environ.get("VERIF_TIER", "quick"))
    ap.add_argument("--replay")
    a = ap.parse_args()
    ck = Check("C14", a.tier)
    thorough = a.tier == "thorough"

    cfg = ck.scratch.path("BounceModel.cfg")
    with open(cfg, "w") as f:
        f.write("SPECIFICATION Spec\nCONSTANT MaxLen = %d\nINVARIANT OneParagraphEach\n" % (6 if thorough else 4))
    res = need_ok(tlc("BounceModel", cfg, workers=NCPU, timeout=1500, heap="10g"), "BounceModel")
    ck.add_tlc("BounceModel", res)
    if res.violated:
        ck.model_violation("BounceModel", res)
    for name, cfgtxt in qsengine.model_configs("C14", thorough):
        cfg = ck.scratch.path(name + ".cfg")
        with open(cfg, "w") as f:
            f.write(cfgtxt)
        res = need_ok(tlc("QSend", cfg, workers=NCPU, timeout=1500, heap="12g"), name)
        ck.add_tlc(name, res)
        if res.violated:
            ck.model_violation(name, res)

    tree = build_tree(ck.scratch, split=3)
    if a.replay:
        h = json.load(open(a.replay))["case"]["history"]
        for m in h["messages"]:
            for k in ("body", "sender"):
                m[k] = m[k].encode("latin1")
            m["rcpts"] = [r.encode("latin1") for r in m["rcpts"]]
        h["script"] = [tuple(x) for x in h["script"]]
        for k in ("dbto", "pfx"):
            if isinstance(h.get(k), str):
                h[k] = h[k].encode("latin1")
        hists = [h]
    else:
        hists = [gen_bounce_history(ck.rng, i, thorough) for i in range(400 if thorough else 110)]
        hists += [gen_bounce_history(ck.rng, 1000 + i, thorough, kind=k) for i, k in enumerate(["vwild", "vcatch", "vdom"] * (10 if thorough else 3))]
        # the assembly of the notice meets a failing call (each open / read of the bounce record and of the message in turn): the
        # notice must not go out without its paragraphs - it is tried again later
        import errno
        for obj in ("bounce", "mess"):
            for call in ("open", "read"):
                for k in range(1, 5 if thorough else 4):
                    h = gen_bounce_history(ck.rng, 1200 + len(hists), thorough, kind="default")
                    h["fault"] = {"role": "qmail-send", "call": call, "k": k, "what": "fail %d" % errno.ENFILE, "obj": obj}
                    h["id"] = "bounce-fault-%s-%s-%d" % (call, obj, k)
                    h["strict"] = 0
                    hists.append(h)
        # a write to the bounce record that comes up short (each of the first writes in turn; 1 byte, half a line): the record still
        # holds exactly one paragraph per failed recipient
        for k in range(1, 6 if thorough else 4):
            for what in ("short 1", "short 9", "short 40"):
                h = gen_bounce_history(ck.rng, 1300 + len(hists), thorough, kind="default")
                h["fault"] = {"role": "qmail-send", "call": "write", "k": k, "what": what, "obj": "bounce"}
                h["id"] = "bounce-shortwrite-%d-%s" % (k, what.split()[1])
                h["strict"] = 0
                hists.append(h)
    runs = qsengine.run_histories(ck, tree, hists)
    bad, vres = qsengine.judge(ck, runs)
    ck.add_tlc("QSendTrace", vres)
    ck.cov["traces_validated_against_impl"] = len(runs)
    nb = sum(1 for r in runs for e in r["ev"] if e["op"] == "bounceq" and e["ok"] == 1)
    ck.cov["bounce_messages_queued_and_judged"] = nb
    ck.cov["discards_of_failing_double_bounce"] = sum(1 for r in runs for i, e in enumerate(r["ev"]) if e["op"] == "rmbounce" and not any(x["op"] == "bounceq" and x["n"] == e["n"] for x in r["ev"][:i]))
    for r in runs:
        ck.count(str(r["h"]["id"]) + str(r["h"]["seed"]), nontrivial=any(e["op"] == "bounceq" for e in r["ev"]))
    for r in runs:
        for e in r["ev"]:
            if e["op"] == "bounceq" and e["ok"] == 1 and len(ck.cov["samples"]) < 4:
                ck.sample({"history": r["h"]["id"], "bounce_envelope_sender": r["addr"].get(e["s"]), "bounce_recipient": r["addr"].get(e["to"]),
                           "notice": bytes(e["b"]).decode("latin1")[-400:]})
    qsengine.report(ck, "C14", runs, bad)
    ck.cov["rule"] = ("seeded bounce histories: 1-2 messages x 1-4 recipients failing permanently / temporarily past queuelifetime in {0,150,500,604800} in any order, "
                      "hostile failure texts (forged '<addr>:' paragraphs, blank-line runs, CRLF, 8-bit, up to beyond REPORTMAX), sender forms plain/empty/#@[]/VERP, "
                      "default/custom bounce controls and virtual domains; chains followed until the queue is empty; non-trivial = a bounce was generated; distinct by history id")
    ck.assumptions += ["the separator text '--- Below this line is' is not generated inside failure texts (a forged separator is outside the statement)",
                       "virtual-domain prefixes: both spellings of a failed recipient are accepted"]
    ck.finish()


if __name__ == "__main__":
    main_wrapper(main)
