#!/usr/bin/env python3
"""C03 No accepted recipient is ever dropped: delivered or bounced.   (also serves C04: ./check C04)

  model   spec/QSend.tla (P: abstract queue manager generating observable events under every report
          order, crash, restart) composed with the monitor spec/QSendMon.tla; invariant: the monitor
          never objects
  impl    histories executed on the REAL qmail-send + qmail-clean + qmail-queue under the gate
          (lib/daemon.py): seeded messages/outcome assignments/report orders/signals, a crash of the
          daemon before each of its file-system-mutating calls (completed writes kept, and with
          un-synced data lost), every single failing call of a reference history
  verdict spec/QSendTrace.tla: TLC replays the observable events of every history through the monitor
"""
import sys, os, json, argparse, copy
sys.path.insert(0, os.path.join(os.path.dirname(os.path.abspath(__file__)), "..", "lib"))
from vlib import *
import histories, qsengine


def reference_history(idx, variant=0):
    """two messages, local+remote recipients, K / Z / D / garbled outcomes, a bounce: the history whose every
    crash point and every failing call is explored"""
    m = [{"body": b"Subject: a\n\nA\n", "sender": b"sender%d@origin.test" % idx,
          "rcpts": [b"c%dl1@local.test" % idx, b"c%dr1@remote.test" % idx, b"c%dl2@local.test" % idx]},
         {"body": b"Subject: b\n\nB\n", "sender": b"", "rcpts": [b"c%dr2@remote.test" % idx]}]
    outcomes = {"c%dl1@local.test" % idx: "K", "c%dr1@remote.test" % idx: "D", "c%dl2@local.test" % idx: "ZK", "c%dr2@remote.test" % idx: "GD",
                "sender%d@origin.test" % idx: "K", "postmaster@test.example": "K"}
    script = [("inject", 0), ("answer", "fifo"), ("inject", 1), ("answer", "lifo"), ("nextdue", 0), ("answer", "fifo"), ("nextdue", 0), ("answer", "fifo")]
    return {"id": "ref%d" % idx, "seed": idx, "messages": m, "outcomes": outcomes, "script": script, "strict": 0, "conc": (10, 20), "announce": (120, 120)}


def sequential_history(idx):
    """one message delivered completely (its job slots are released), then a second one with several recipients per channel:
    failing reads / opens of the second one's recipient lists are explored (what a finished job leaves in its slot must not
    decide the fate of the next)"""
    m = [{"body": b"Subject: a\n\nA\n", "sender": b"sq%d@origin.test" % idx, "rcpts": [b"q%dl0@local.test" % idx, b"q%dr0@remote.test" % idx]},
         {"body": b"Subject: b\n\nB\n", "sender": b"sq%d@origin.test" % idx,
          "rcpts": [b"q%dl1@local.test" % idx, b"q%dl2@local.test" % idx, b"q%dr1@remote.test" % idx, b"q%dr2@remote.test" % idx]}]
    outcomes = {r.decode(): "K" for mm in m for r in mm["rcpts"]}
    outcomes["sq%d@origin.test" % idx] = "K"
    script = [("inject", 0), ("answer", "fifo"), ("answer", "fifo"), ("inject", 1), ("answer", "fifo"), ("signal", "ALRM"), ("answer", "fifo"), ("nextdue", 0), ("answer", "fifo")]
    return {"id": "seq%d" % idx, "seed": idx, "messages": m, "outcomes": outcomes, "script": script, "strict": 0, "conc": (10, 20), "announce": (120, 120)}


def count_mutating(tree, ck, h, role):
    """number of mutating calls of `role` in the fault-free run of h"""
    import histories as H
    r = H.Runner(tree, ck.scratch.sub("qs"), h, ck.rng)
    cnt = {"n": 0}
    calls = {}
    orig = r.policy

    def pol(pr, want):
        rl = pr.role.split(":")[-1]
        if rl == role:
            if H.is_mutating(want):
                cnt["n"] += 1
            calls[want.get("c")] = calls.get(want.get("c"), 0) + 1
        return orig(pr, want)
    r.policy = pol
    res = r.run()
    res["h"] = h
    return cnt["n"], calls, res


def main():
    ap = argparse.ArgumentParser()
    ap.add_argument("--tier", default=os.environ.get("VERIF_TIER", "quick"))
    ap.add_argument("--replay")
    ap.add_argument("--prop", default="C03")
    a = ap.parse_args()
    prop = a.prop
    ck = Check(prop, a.tier)
    thorough = a.tier == "thorough"

    # ---- the design
    for name, cfgtxt in qsengine.model_configs(prop, thorough):
        cfg = ck.scratch.path(name + ".cfg")
        with open(cfg, "w") as f:
            f.write(cfgtxt)
        res = need_ok(tlc("QSend", cfg, workers=NCPU, timeout=1500, heap="12g"), name)
        ck.add_tlc(name, res)
        if res.violated:
            ck.model_violation(name, res)

    tree = build_tree(ck.scratch, split=3)
    hists = []
    if a.replay:
        hists = [json.load(open(a.replay))["case"]["history"]]
        for h in hists:
            for m in h["messages"]:
                for k in ("body", "sender"):
                    m[k] = m[k].encode("latin1")
                m["rcpts"] = [r.encode("latin1") for r in m["rcpts"]]
            h["script"] = [tuple(x) for x in h["script"]]
    else:
        # seeded general histories
        for i in range(160 if thorough else 50):
            hists.append(histories.gen_history(ck.rng, i, thorough, many=(prop == "C04" and i % 3 != 0)))
        if prop == "C04":
            # wide histories: more recipients than the limit, with configured concurrency and announced limit on both sides of
            # each other and of 127/128 (the announcement is one byte): outstanding attempts never exceed the smaller of the two
            wi = 0
            for chan, conc, ann, nr in ((1, 255, 128, 140), (0, 255, 128, 140), (1, 150, 127, 140), (1, 200, 255, 210), (1, 255, 255, 30), (0, 130, 200, 140)) + \
                                       (((1, 255, 200, 215), (0, 255, 254, 255), (1, 129, 128, 135)) if thorough else ()):
                wi += 1
                dom = b"local.test" if chan == 0 else b"remote.test"
                rc = [b"w%dr%d@%s" % (wi, k, dom) for k in range(nr)]
                oc = {r.decode(): "K" for r in rc}
                oc["ws%d@origin.test" % wi] = "K"
                hists.append({"id": "wide-%d-%d-%d-%d" % (chan, conc, ann, nr), "seed": 5000 + wi, "strict": 0, "drain_rounds": 40,
                              "messages": [{"body": b"Subject: w\n\nwide\n", "sender": b"ws%d@origin.test" % wi, "rcpts": rc}], "outcomes": oc,
                              "script": [("inject", 0), ("answer", "lifo"), ("answer", "fifo"), ("answer", "random")],
                              "conc": (conc, 20) if chan == 0 else (10, conc), "announce": (ann, 120) if chan == 0 else (120, ann)})
        # mixed wide messages: recipients of both channels in one envelope, enough of them that each channel's list is written out
        # in several pieces (the daemon's 1024-byte buffers) while the other channel's is still being collected
        for wi, (nl, nr, order) in enumerate(((40, 1, "rl"), (1, 40, "lr"), (30, 30, "alt")) + (((45, 3, "rl"), (26, 26, "alt"), (60, 2, "lr")) if thorough else ())):
            lo = [b"mx%dl%02d-padding-padding@local.test" % (wi, k) for k in range(nl)]
            re_ = [b"mx%dr%02d-padding-padding@remote.test" % (wi, k) for k in range(nr)]
            if order == "rl":
                rc = re_ + lo
            elif order == "lr":
                rc = lo + re_
            else:
                rc = [x for pair in zip(lo, re_) for x in pair]
            oc = {r.decode(): "K" for r in rc}
            oc["mxs%d@origin.test" % wi] = "K"
            hists.append({"id": "mixed-wide-%d-%d-%s" % (nl, nr, order), "seed": 5200 + wi, "strict": 1, "drain_rounds": 40,
                          "messages": [{"body": b"Subject: m\n\nmixed\n", "sender": b"mxs%d@origin.test" % wi, "rcpts": rc}], "outcomes": oc,
                          "script": [("inject", 0), ("answer", "fifo"), ("answer", "fifo"), ("answer", "fifo"), ("answer", "fifo")], "conc": (50, 50), "announce": (120, 120)})
        if prop == "C04":
            # a second queue manager started while the first still has attempts outstanding (an overlapping restart): it must refuse
            # to run; whatever it writes to its own spawners would be a second attempt for recipients already being attempted
            for v in range(3):
                rc = [b"sd%dl@local.test" % v, b"sd%dr@remote.test" % v]
                oc = {r.decode(): "K" for r in rc}
                oc["sds%d@origin.test" % v] = "K"
                sc = [("inject", 0), ("second_daemon",)] + ([("signal", "TERM"), ("second_daemon",)] if v == 1 else []) + [("answer", "fifo")] + ([("second_daemon",)] if v == 2 else [])
                hists.append({"id": "second-daemon-%d" % v, "seed": 7000 + v, "strict": 0, "drain_rounds": 10,
                              "messages": [{"body": b"Subject: s\n\nsecond\n", "sender": b"sds%d@origin.test" % v, "rcpts": rc}], "outcomes": oc, "script": sc})
        # crash points of the reference history: before every mutating call of the daemon / of the cleaner
        ref = reference_history(900)
        nsend, calls, _ = count_mutating(tree, ck, ref, "qmail-send")
        nclean, _, _ = count_mutating(tree, ck, ref, "qmail-clean")
        ck.cov["crash_points_daemon"] = nsend
        ck.cov["crash_points_cleaner"] = nclean
        stride = 1 if thorough else 2
        for k in range(1, nsend + 1, stride):
            for lossy in (False, True):
                h = reference_history(1000 + k)
                h["kill"] = {"role": "qmail-send", "k": k, "lossy": lossy}
                h["id"] = "crash-send-%d-%s" % (k, "lossy" if lossy else "kept")
                hists.append(h)
        for k in range(1, nclean + 1):
            h = reference_history(2000 + k)
            h["kill"] = {"role": "qmail-clean", "k": k, "lossy": False}
            h["id"] = "crash-clean-%d" % k
            hists.append(h)
        # every single failing call (by kind and ordinal) of the daemon in the reference history
        import errno
        fi = 0
        for call, n in sorted(calls.items()):
            if call not in ("open", "read", "write", "fsync", "unlink", "stat", "link", "utimes"):
                continue
            ords = range(1, n + 1) if thorough else sorted(set([1, 2, 3, n // 2, n - 1, n]) & set(range(1, n + 1)))
            for k in ords:
                fi += 1
                h = reference_history(3000 + fi)
                h["fault"] = {"role": "qmail-send", "call": call, "k": k, "what": "fail %d" % errno.EIO}
                h["id"] = "fault-%s-%d" % (call, k)
                hists.append(h)

        # targeted: the first and second failing call of each kind on each class of queue object, and failures inside
        # the qmail-queue run that queues a bounce
        for obj in ("info", "local", "remote", "bounce", "todo", "mess"):
            for call in ("open", "read", "write", "fsync", "unlink", "stat"):
                for k in (1, 2):
                    fi += 1
                    h = reference_history(4000 + fi)
                    h["fault"] = {"role": "qmail-send", "call": call, "k": k, "what": "fail %d" % errno.EIO, "obj": obj}
                    h["id"] = "fault-%s-%s-%d" % (call, obj, k)
                    hists.append(h)
        # the cleaner cannot remove a file (each of its unlinks in turn): the daemon must not go on as if it had
        for k in range(1, 9):
            fi += 1
            h = reference_history(4500 + fi)
            h["fault"] = {"role": "qmail-clean", "call": "unlink", "k": k, "what": "fail %d" % errno.EIO}
            h["id"] = "fault-clean-unlink-%d" % k
            hists.append(h)
        # failing reads / opens of the recipient lists of a message that comes after a completely delivered one
        for obj in ("local", "remote"):
            for call in ("read", "open"):
                for k in range(1, 8 if thorough else 6):
                    fi += 1
                    h = sequential_history(4700 + fi)
                    h["fault"] = {"role": "qmail-send", "call": call, "k": k, "what": "fail %d" % errno.EIO, "obj": obj}
                    h["id"] = "fault-seq-%s-%s-%d" % (call, obj, k)
                    hists.append(h)
        # a restart with deferred recipients on both channels, during which one stat() of the start-up scan fails (the message is
        # put aside and looked at again two minutes later): nothing may be scheduled twice
        for obj in ("info", "local", "remote"):
            for k in (1, 2, 3):
                fi += 1
                rid = 4900 + fi
                m_ = [{"body": b"Subject: s\n\nS\n", "sender": b"ss%d@origin.test" % rid, "rcpts": [b"s%dl1@local.test" % rid, b"s%dr1@remote.test" % rid, b"s%dl2@local.test" % rid]}]
                oc_ = {"s%dl1@local.test" % rid: "ZZK", "s%dr1@remote.test" % rid: "ZZK", "s%dl2@local.test" % rid: "ZK", "ss%d@origin.test" % rid: "K"}
                hists.append({"id": "fault-restart-stat-%s-%d" % (obj, k), "seed": rid, "messages": m_, "outcomes": oc_, "strict": 0, "conc": (10, 20), "announce": (120, 120),
                              "script": [("inject", 0), ("answer", "fifo"), ("termrestart",), ("advance", 130), ("advance", 130), ("nextdue", 0), ("nextdue", 0), ("answer", "fifo"), ("nextdue", 0), ("answer", "fifo")],
                              "fault": {"role": "qmail-send", "call": "stat", "k": k, "what": "fail %d" % errno.EIO, "obj": obj}})
        for call, ks in (("open", (1, 2)), ("write", (1, 2)), ("fsync", (1, 2)), ("link", (1, 2)), ("read", (1, 3))):
            for k in ks:
                fi += 1
                h = reference_history(5000 + fi)
                h["fault"] = {"role": "send:qmail-queue", "call": call, "k": k, "what": "fail %d" % errno.ENOSPC}
                h["id"] = "fault-bounceqq-%s-%d" % (call, k)
                hists.append(h)

    if os.environ.get("VERIF_ONLY_HIST"):          # debugging aid: run only the named histories (generation order, hence seeds, unchanged)
        hists = [h for h in hists if str(h.get("id")) in os.environ["VERIF_ONLY_HIST"].split(",")]
    runs = qsengine.run_histories(ck, tree, hists)
    bad, vres = qsengine.judge(ck, runs)
    if os.environ.get("VERIF_DUMP_EVENTS"):
        for r in runs:
            print("HISTORY", r["h"].get("id"), r["h"].get("conc"), r["h"].get("announce"), r["h"]["script"])
            for k, e in enumerate(r["ev"]):
                print("  EV %d %s" % (k + 1, {x: v for x, v in e.items() if v not in (0, "", []) and x not in ("b", "atab")}))
    ck.add_tlc("QSendTrace", vres)
    ck.cov["traces_validated_against_impl"] = len(runs)
    ck.cov["observable_events"] = sum(len(r["ev"]) for r in runs)
    for r in runs:
        ck.count(json.dumps(r["h"].get("id")) + str(r["h"].get("seed")), nontrivial=True)
    for r in runs[:: max(1, len(runs) // 4)][:4]:
        ck.sample({"history": str(r["h"]["id"]), "script": [list(x) for x in r["h"]["script"]][:8], "kill": r["h"].get("kill"), "fault": r["h"].get("fault"),
                   "events": [e["op"] for e in r["ev"]][:40]})
    qsengine.report(ck, prop, runs, bad)
    if prop == "C04":
        for r in runs:
            for s2 in r.get("second", []):
                ck.cov["second_daemon_attempts"] = ck.cov.get("second_daemon_attempts", 0) + 1
                if s2.get("delcmd_bytes", 0) > 0 or s2["status"] != 111:
                    ck.violation("C04:SecondQueueManagerRunsBesideTheFirst:status=%s:delcmd=%s" % (s2["status"], 1 if s2.get("delcmd_bytes") else 0),
                                 "history %s: a second qmail-send started against the running one exited with %s (111 = refused) and wrote %d bytes of delivery commands (%s) while the first one's attempts for the same recipients were outstanding"
                                 % (r["h"].get("id"), s2["status"], s2.get("delcmd_bytes", 0), s2.get("delcmd", "")), {"history": {"id": r["h"].get("id")}})
    ck.cov["rule"] = ("seeded histories (1-3 messages, local/remote recipients, outcome sequences over K/Z/D/garbled, report orders, ALRM/HUP/TERM+restart, "
                      "clock steps, concurrency and announced limits) + a crash of qmail-send before each of its %s mutating calls in a reference history "
                      "(data kept / un-synced data lost) + a crash of qmail-clean before each of its mutating calls + single failing calls of the daemon; "
                      "distinct by history id" % ck.cov.get("crash_points_daemon", "?"))
    ck.assumptions += ["the controller plays qmail-start and both spawners; delivery agents are not run", "one process moves at a time (gate): the trace is a total order",
                       "lossy crash = per file revert to the last fsync image (marks individually)"]
    ck.finish()


if __name__ == "__main__":
    main_wrapper(main)
