#!/usr/bin/env python3
"""C05 Inbound SMTP DATA is decoded transparently and framed only by CRLF.CRLF.

  model   spec/SmtpdBlast.tla (P: the five-state recogniser of qmail-smtpd.c) x a client sending any
          stream over {CR,LF,'.','x'} up to MaxLen; invariants Agree (machine = reference receiver
          RefRecv on *every prefix*) and RoundTrip (decode(encode(m)) = m)
  impl    the real qmail-smtpd binary, one SMTP session per stream, QMAILQUEUE = recording stand-in,
          network reads split by the shim (VERIF_READCAP = 1, 2, 3 or unlimited); observed: reply after
          354, bytes handed to the queue program, whether the envelope was completed, and how the
          bytes after the terminator were treated (number of commands answered)
          + round trip: payloads produced by the real qmail-remote encoder fed to the real smtpd
  verdict TLC evaluates DecVerdict (spec/SmtpData.tla) on every record (spec/SmtpdBlastRec.tla)
"""
import sys, os, json, argparse
sys.path.insert(0, os.path.join(os.path.dirname(os.path.abspath(__file__)), "..", "lib"))
from vlib import *
import sandbox, sessions

ALPHA = [13, 10, 46, 120]
PRE = b"HELO client.test\r\nMAIL FROM:<s@sender.test>\r\nRCPT TO:<r@rcpt.test>\r\nDATA\r\n"


def enum_streams(maxlen):
    out, level = [[]], [[]]
    for _ in range(maxlen):
        level = [m + [a] for m in level for a in ALPHA]
        out += level
    return out


def terminated_variants(streams):
    """Streams that contain a terminator are the interesting ones for framing: also append CRLF.CRLF + tail."""
    out = []
    for s in streams:
        out.append(s + [13, 10, 46, 13, 10])
        out.append(s + [13, 10, 46, 13, 10, 120, 13, 10, 46, 10])
        # recognised commands after the terminator: they must be recognised (and answered as such) however the stream is cut
        out.append(s + [13, 10, 46, 13, 10] + list(b"NOOP\r\nQUIT\r\n"))
        out.append(s + [13, 10, 46, 13, 10] + list(b"noop\r\nxyzzy\r\nNOOP\r\n"))
    return out


def main():
    ap = argparse.ArgumentParser()
    ap.add_argument("--tier", default=os.environ.get("VERIF_TIER", "quick"))
    ap.add_argument("--replay")
    a = ap.parse_args()
    ck = Check("C05", a.tier)
    thorough = a.tier == "thorough"
    model_len, enum_len, split_len = (11, 8, 6) if thorough else (9, 6, 5)
    nrand = 600 if thorough else 150

    cfg = ck.scratch.path("SmtpdBlast.cfg")
    with open(cfg, "w") as f:
        f.write("SPECIFICATION Spec\nCONSTANTS\n Alphabet = {13, 10, 46, 120}\n MaxLen = %d\nINVARIANT Agree\nINVARIANT RoundTrip\n" % model_len)
    res = need_ok(tlc("SmtpdBlast", cfg, workers=NCPU, timeout=1500, heap="8g"), "SmtpdBlast model")
    ck.add_tlc("SmtpdBlast(MaxLen=%d)" % model_len, res)
    if res.violated:
        ck.model_violation("SmtpdBlast", res)

    tree = build_tree(ck.scratch, split=3)
    clock = ck.scratch.path("clock")
    with open(clock, "w") as f:
        f.write("100000000\n")
    qq = sessions.QQDir(ck.scratch.path("qq"))
    base_env = sandbox.shim_env(tree, clock=clock)
    base_env.update({"TCPREMOTEIP": "192.0.2.7", "TCPREMOTEHOST": "client.test", "TCPLOCALHOST": "mx.test.example",
                     "TCPLOCALIP": "192.0.2.1"})

    LIMIT = 150
    limited = set()         # job numbers run under DATABYTES = LIMIT
    shortw = {}             # job number -> (k, what): the daemon's k-th call is cut short
    faultj = {}             # job number -> (k, errno): the daemon's k-th call fails

    def session(job):
        idx, stream, cap = job
        env = dict(base_env)
        env.update(qq.env("s%d" % idx))
        if idx in limited:
            env["DATABYTES"] = str(LIMIT)
        if idx in shortw:
            env.update({"VERIF_TRACE": ck.scratch.path("sw.trace"), "VERIF_FAULT": "%d:%s" % shortw[idx], "VERIF_FAULT_PROG": "qmail-smtpd"})
        if idx in faultj:
            env.update({"VERIF_TRACE": ck.scratch.path("sw.trace"), "VERIF_FAULT": "%d:%s" % faultj[idx], "VERIF_FAULT_PROG": "qmail-smtpd"})
        if cap:
            env["VERIF_READCAP"] = str(cap)
        out, rc, to = sessions.run_daemon([tree.bin("qmail-smtpd")], PRE + bytes(stream), env, cwd=tree.root)
        return out, rc, to

    # ---- calibration: length of the Received field this build writes (frozen clock)
    out, rc, to = session((0, [46, 13, 10], 0))
    cal = qq.collect().get("s0")
    if not cal:
        raise Infra("calibration session did not reach the queue stand-in: %r" % out[:300])
    hdr = cal[0]["msg"]
    if not hdr.startswith(b"Received:") or not hdr.endswith(b"\n"):
        raise Infra("unexpected Received field %r" % hdr[:200])
    H = len(hdr)

    if a.replay:
        case = json.load(open(a.replay))["case"]
        jobs = [(1, case["s"], case.get("cap", 0))]
    else:
        streams = enum_streams(enum_len)
        base = [s for s in streams if len(s) <= split_len]
        jobs = [(s, 0) for s in streams] + [(s, c) for s in base for c in (1, 2)] + \
               [(s, c) for s in terminated_variants([t for t in streams if len(t) <= split_len - 1]) for c in (0, 1, 3)]
        rng = ck.rng
        for _ in range(nrand):
            ln = rng.choice([rng.randint(0, 60), rng.randint(1015, 1035), rng.randint(0, 2500)])
            w = rng.choice([(3, 1, 3, 2, 1), (4, 0, 2, 6, 2), (2, 0, 1, 1, 0)])
            s = []
            for _ in range(ln):
                k = rng.choices(range(5), weights=w)[0]
                if k == 0:
                    s += [13, 10]
                elif k < 4:
                    s.append(ALPHA[k] if k != 1 else 10)
                else:
                    s.append(rng.randrange(1, 256))
            if rng.random() < 0.7:
                s += [13, 10, 46, 13, 10] + rng.choice([[], [120, 13, 10], [46, 13, 10, 120, 120, 10]])
            jobs.append((s, rng.choice([0, 0, 1, 7])))
        # the same kind of streams under a size limit: accepted and stored exactly, or refused as a whole
        for _ in range(nrand // 2):
            ln = rng.choice([rng.randint(0, 100), rng.randint(130, 175), rng.randint(100, 900)])
            s = []
            for _ in range(ln):
                k = rng.choices(range(5), weights=(1, 0, 2, 8, 2))[0]
                s += [[13, 10], [10], [46], [120], [rng.randrange(32, 127)]][k]
            s += [13, 10, 46, 13, 10] + rng.choice([[], [78, 79, 79, 80, 13, 10]])
            jobs.append((s, rng.choice([0, 0, 7])))
            limited.add(len(jobs))
        # a long stream with each call of the daemon in turn accepting only part of what it is given (a short write to the queue
        # program, a short read from the network): what is stored is still exactly what was sent
        big = []
        for i in range(160):
            big += list(b"line %03d of a long message, dots: . .. ...\r\n" % i) + ([46, 46, 120, 13, 10] if i % 7 == 0 else [])
        big += [46, 13, 10]
        for k in range(4, 60 if not thorough else 90):
            for what in ("short1", "short700"):
                jobs.append((big, 0))
                shortw[len(jobs)] = (k, what)
        # the same long stream with each call of the daemon in turn FAILING (descriptor table full, no memory): whatever it answers,
        # once it has said 354 the lines of the message are not commands
        for k in range(3, 40 if not thorough else 70):
            for what in ("24", "12"):
                jobs.append((big + list(b"NOOP\r\n"), 0))
                faultj[len(jobs)] = (k, what)
        # the same long stream with every network read cut to just below, at and around the size of the daemon's input buffer
        # (1024) and its halves: the input routine moves what it has read to the end of its buffer, by one byte or by many
        for cap in (1023, 1022, 1021, 1000, 1024, 1025, 513, 512, 511, 255, 100, 31):
            jobs.append((big, cap))
            jobs.append((big[:-3] + [13, 46, 13, 10, 46, 13, 10], cap))
        jobs = [(i + 1, s, c) for i, (s, c) in enumerate(jobs)]

    # ---- round trip through this package's own client: messages (lines over the alphabet, bare CRs
    # included, complete) are sent by the real qmail-remote to the scripted server; the payload it produced is
    # then fed to the real qmail-smtpd and must be stored as exactly the original message
    orig = {}
    if not a.replay:
        sys.path.insert(0, os.path.dirname(os.path.abspath(__file__)))
        import c06
        msgs = [m for m in c06.enum_messages(6 if thorough else 5) if not m or m[-1] in (10, 13)]
        for _ in range(60):
            ln = ck.rng.randint(1, 1500)
            msgs.append([ck.rng.choice([10, 46, 46, 120, 120, 120, 13, ck.rng.randrange(32, 127)]) for _ in range(ln)] + [10])
        brecs = c06.binary_records(ck, tree, msgs)
        n0 = len(jobs)
        for r in brecs:
            if r["r"] != "ok":
                continue
            jobs.append((len(jobs) + 1, r["o"], ck.rng.choice([0, 0, 5])))
            orig[len(jobs)] = r["i"]
        ck.cov["round_trips_through_real_client"] = len(jobs) - n0

    results = sessions.pmap(session, jobs)
    qrecs = qq.collect()
    recs = []
    hung = 0
    for (idx, stream, cap), (out, rc, to) in zip(jobs, results):
        if to:
            hung += 1
        reps = sessions.smtp_replies(out)
        codes = [c for c, _ in reps]
        if idx in faultj:
            qf = qrecs.get("s%d" % idx, [])
            recs.append({"s": stream, "cap": cap, "res": "fault", "msg": [], "q": 1 if (qf and sessions.parse_envelope(qf[0]["env"])[2]) else 0, "nlf": 1, "rc": rc,
                         "orig": [-1], "lim": 0, "aft": codes[4:] if codes[:4] == [220, 250, 250, 250] else [-1]})
            ck.count(("fault",) + faultj[idx], nontrivial=True)
            continue
        if codes[:5] != [220, 250, 250, 250, 354]:
            if not cap and idx not in shortw:
                raise Infra("session preamble failed: %r" % out[:300])
            # the same four commands are accepted when they arrive in one read and every write is taken whole: under a read cap
            # (or with one call cut short) they were not recognised / not answered properly
            recs.append({"s": stream, "cap": cap, "res": "pre", "msg": [], "q": 0, "nlf": -1, "rc": rc, "orig": [-1], "lim": 0, "aft": [-1]})
            continue
        after = codes[5:]
        q = qrecs.get("s%d" % idx, [])
        msg, queued = [], False
        if q:
            sender, rcpts, complete = sessions.parse_envelope(q[0]["env"])
            queued = complete
            m = q[0]["msg"]
            msg = list(m[H:]) if m[:H] == hdr else list(m)
            if m[:H] != hdr and complete:
                msg = [-1]       # Received field damaged: will not match any decoding
        if after and after[0] == 250:
            r = "end"
        elif after and after[0] == 451:
            r = "bad"
        elif not after:
            r = "eof"
        elif after[0] == 552 and idx in limited:
            r = "big"
        else:
            r = "other%d" % after[0]
        nlf = len([c for c in after[1:]]) if r == "end" else -1
        recs.append({"s": stream, "cap": cap, "res": r, "msg": msg, "q": 1 if queued else 0, "nlf": nlf, "rc": rc,
                     "orig": orig.get(idx, [-1]), "lim": LIMIT if idx in limited else 0, "aft": (after[1:] if r == "end" else [-1])})
        ck.count((tuple(stream), cap), nontrivial=(13 in stream or 46 in stream))
    if hung > len(jobs) // 50:
        raise Infra("%d of %d sessions hung" % (hung, len(jobs)))

    # ---- round trip through this package's own client: payloads of the real encoder (C06's seam output
    # is not reused; the reference encoding of every line sequence is what RoundTrip covers in the model,
    # here the real qmail-remote output for CR-free messages must decode to the message itself)
    recfile = ck.scratch.path("c05.ndjson")
    write_ndjson(recfile, [{"s": r["s"], "res": r["res"], "msg": r["msg"], "q": r["q"], "nlf": r["nlf"], "orig": r["orig"], "lim": r["lim"], "aft": r["aft"]} for r in recs])
    bad, vres = tlc_validate_records("SmtpdBlastRec", "SmtpdBlastRec.cfg", recfile, len(recs), chunk=300)
    ck.add_tlc("SmtpdBlastRec", vres)
    ck.cov["traces_validated_against_impl"] = len(recs)
    for r in recs[:400:80] + recs[-2:]:
        ck.sample({"stream": r["s"][:40], "readcap": r["cap"], "result": r["res"], "stored": r["msg"][:40], "queued": r["q"], "cmds_after": r["nlf"]})
    ck.cov["rule"] = ("every stream over {CR,LF,'.','x'} up to length %d sent after DATA to the real qmail-smtpd (unsplit), up to length %d also with "
                      "network reads of 1 and 2 bytes, terminated variants with trailing command bytes, %d seeded random streams up to 2500 bytes; "
                      "non-trivial = contains CR or '.'; distinct by (stream, read cap)" % (enum_len, split_len, nrand))
    ck.cov["exhaustive"] = True
    ck.assumptions += ["QMAILQUEUE stand-in records descriptor 0/1 faithfully; 'queued' = the queue program saw a complete envelope",
                       "lines '.' CR x (x # LF) are left unconstrained between the RFC reading and the inherited one (DESIGN.md section 6 item 3)"]
    best = {}
    for idx, why in bad:
        r = recs[idx - 1]
        why = why.strip('"')
        if why not in best or len(r["s"]) < len(best[why]["s"]):
            best[why] = r
    for why, r in sorted(best.items()):
        key = "%s:stream=%s" % (why, ",".join(map(str, r["s"][:24])))
        ck.violation(key, "stream %s (readcap %s) -> %s, stored %s, queued=%s, commands after=%s" % (r["s"][:24], r["cap"], r["res"], r["msg"][:30], r["q"], r["nlf"]), r)
    ck.finish()


if __name__ == "__main__":
    main_wrapper(main)
