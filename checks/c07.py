#!/usr/bin/env python3
"""C07 Network daemons acknowledge a message if and only if exactly it was queued.

  model   spec/IngestModel.tla: the three daemons' handling of size limit, hop limit, bad addresses, every class of queue exit
          status / custom text / death by signal and client disconnects (transcribed at the grain of qmail_fail / qmail_close)
          against the monitor IngestVerdict (spec/Ingest.tla) for every combination
  impl    the real qmail-smtpd, qmail-qmtpd and qmail-qmqpd with QMAILQUEUE = recording stand-in (exit status 0..255, custom
          descriptor-6 text, death by signal): message sizes around databytes, 98..101 Received/Delivered-To fields, over-long /
          NUL-containing / policy-refused addresses, malformed netstrings, EVERY cut point of small sessions, hostile
          HELO / TCPREMOTE* strings; and the daemons in front of the REAL qmail-queue for transactions that are given up with
          the flushed part of the envelope ending at / next to the end of an address record (1024-byte buffer of qmail.c)
  verdict spec/IngestRec.tla: TLC judges every transaction (acknowledgements, what the queue program received byte for byte,
          the Received field, reply classes)
"""
import sys, os, json, argparse, re
sys.path.insert(0, os.path.join(os.path.dirname(os.path.abspath(__file__)), "..", "lib"))
from vlib import *
import sandbox, sessions

ENV0 = {"TCPREMOTEIP": "192.0.2.7", "TCPREMOTEHOST": "client.test", "TCPLOCALHOST": "mx.test.example", "TCPLOCALIP": "192.0.2.1"}
UNSAFE = ["evil host", "a\nReceived: forged", "x(comment)y", "semi;colon", "quo\"te", "8bit\xe9\xff", "<script>", "tab\there", "ok.host-1", "[10.0.0.1]", "a@b%c+d/e=f:g", "back\\slash", "", "CR\rLF"]


def ns(b):
    return str(len(b)).encode() + b":" + b + b","


def parse_ns(data):
    out, i = [], 0
    while i < len(data):
        m = re.match(rb"(\d+):", data[i:])
        if not m:
            break
        n = int(m.group(1))
        s = i + m.end()
        if s + n >= len(data) + 0 and s + n > len(data):
            break
        out.append(data[s:s + n])
        i = s + n + 1
    return out


def split_recv(msg):
    """(Received field, rest): the field is everything up to and including the second LF"""
    i = msg.find(b"\n")
    j = msg.find(b"\n", i + 1) if i >= 0 else -1
    if j < 0:
        return msg, b""
    return msg[:j + 1], msg[j + 1:]


class Case:
    def __init__(self, proto, body, sender, rcpts, rc=None, over=0, hops=0, sbad=0, cut=None, qexit=0, qtext=None, qdie=None, env=None, wire_body=None, databytes=None,
                 helo="client.test", note=""):
        self.__dict__.update(locals())
        self.rc = rc or ["ok"] * len(rcpts)


def smtp_stream(c):
    wire = c.wire_body if c.wire_body is not None else c.body.replace(b"\n", b"\r\n")
    s = b"HELO " + c.helo.encode("latin1") + b"\r\nMAIL FROM:<" + c.sender + b">\r\n"
    for r in c.rcpts:
        s += b"RCPT TO:<" + r + b">\r\n"
    s += b"DATA\r\n" + wire + b".\r\nQUIT\r\n"
    return s


def qmtp_stream(c):
    wire = c.wire_body if c.wire_body is not None else b"\n" + c.body
    return ns(wire) + ns(c.sender) + ns(b"".join(ns(r) for r in c.rcpts))


def qmqp_stream(c):
    return ns(ns(c.body) + ns(c.sender) + b"".join(ns(r) for r in c.rcpts))


class Multi:
    """several messages on ONE connection (QMTP: message after message; SMTP: transaction after transaction): what one message
    leaves behind in the daemon must not leak into the next.  Queue-program behaviour and DATABYTES are per connection."""
    def __init__(self, proto, parts, note, databytes=None):
        self.proto, self.parts, self.note, self.databytes = proto, parts, note, databytes
        self.env, self.qexit, self.qtext, self.qdie, self.cut = None, 0, None, None, None
        for i, p in enumerate(parts):
            p.note = "%s#%d" % (note, i)


def multi_stream(m):
    if m.proto == "qmtp":
        return b"".join(qmtp_stream(p) for p in m.parts)
    s = b"HELO client.test\r\n"
    for p in m.parts:
        s += b"MAIL FROM:<" + p.sender + b">\r\n" + b"".join(b"RCPT TO:<" + r + b">\r\n" for r in p.rcpts) + b"DATA\r\n" + p.body.replace(b"\n", b"\r\n") + b".\r\n"
    return s + b"QUIT\r\n"


def multi_records(m, out, subs):
    """one record per message of the connection: its acknowledgements and the queue-program invocation that belongs to it"""
    recs = []
    if m.proto == "qmtp":
        acks = [(x[:1].decode("latin1") if x else "?") for x in parse_ns(out)]
        pos = 0
        for i, p in enumerate(m.parts):
            mine = acks[pos:pos + len(p.rcpts)]
            pos += len(p.rcpts)
            recs.append(make_record(p, out, subs[i:i + 1], acks=mine))
    else:
        codes = [x for x, _ in sessions.smtp_replies(out)]
        pos = 2          # greeting, HELO
        for i, p in enumerate(m.parts):
            g = codes[pos:pos + 3 + len(p.rcpts)]
            pos += 3 + len(p.rcpts)
            mine = [str(g[-1] // 100)] if len(g) == 3 + len(p.rcpts) and g[-2] == 354 else []
            recs.append(make_record(p, out, subs[i:i + 1], acks=mine))
    return recs


def run_case(tree, qq, idx, c):
    env = dict(os.environ)
    env.update(ENV0)
    if c.env:
        # raw bytes in environment values (8-bit peer strings): hand them through unchanged
        env.update({k: v.encode("latin1").decode("utf-8", "surrogateescape") for k, v in c.env.items()})
    env.pop("RELAYCLIENT", None)
    env.update(qq.env("s%d" % idx, exitcode=c.qexit, err=c.qtext, die=c.qdie))
    if getattr(c, "fault", None):
        # one failing (or short) system call in the daemon itself
        k, what, trace = c.fault
        binary_ = {"smtp": "qmail-smtpd", "qmtp": "qmail-qmtpd", "qmqp": "qmail-qmqpd"}[c.proto]
        env.update(sandbox.shim_env(tree, trace=trace, extra={"VERIF_FAULT": "%d:%s" % (k, what), "VERIF_FAULT_PROG": binary_} if k else None))
    if c.databytes is not None:
        env["DATABYTES"] = str(c.databytes)
    stream = multi_stream(c) if isinstance(c, Multi) else {"smtp": smtp_stream, "qmtp": qmtp_stream, "qmqp": qmqp_stream}[c.proto](c)
    if c.cut is not None:
        stream = stream[: c.cut]
    if getattr(c, "lastbyte", None):
        stream = stream[:-1] + c.lastbyte
    binary = {"smtp": "qmail-smtpd", "qmtp": "qmail-qmtpd", "qmqp": "qmail-qmqpd"}[c.proto]
    out, rc, to = sessions.run_daemon([tree.bin(binary)], stream, env, cwd=tree.root, timeout=30)
    return out, rc, to


def make_record(c, out, subs, acks=None):
    if acks is not None:
        pass
    elif c.proto == "smtp":
        acks = []
        codes = [x for x, _ in sessions.smtp_replies(out)]
        # greeting, HELO, MAIL, RCPT*n, DATA(354), final
        if 354 in codes:
            after = codes[codes.index(354) + 1:]
            if after and after[0] != 221:
                acks = [str(after[0] // 100)]
    else:
        acks = [(x[:1].decode("latin1") if x else "?") for x in parse_ns(out)]
    acks = acks or []
    q = subs[0] if subs else None
    qinv = q is not None
    gs, gr, complete, recv, got = b"", [], False, b"", b""
    if q:
        gs_, gr, complete = sessions.parse_envelope(q["env"])
        gs = gs_ or b""
        recv, got = split_recv(q["msg"])
    qtext = ""
    if c.qtext is not None and len(c.qtext) > 2:
        qtext = c.qtext[:1] if c.qtext[:1] in ("D", "Z") else "X"
    e = dict(ENV0)
    if c.env:
        e.update(c.env)
    B = lambda x: list(x.encode("latin1"))
    helo = c.helo if c.proto == "smtp" else ""
    pf = {"known": True, "host": B(e.get("TCPREMOTEHOST", "unknown")), "helo": B(helo), "hashelo": c.proto == "smtp", "info": B(e.get("TCPREMOTEINFO", "")),
          "hasinfo": "TCPREMOTEINFO" in e, "ip": B(e.get("TCPREMOTEIP", "unknown")), "local": B(e.get("TCPLOCALHOST") or e.get("TCPLOCALIP") or "unknown"),
          "proto": B(c.proto.upper())}
    return {"pf": pf, "proto": c.proto, "over": bool(c.over), "hops": bool(c.hops), "sbad": bool(c.sbad), "rc": c.rc, "cut": c.cut is not None or bool(getattr(c, "isfault", False)),
            "incomplete": bool(getattr(c, "incomplete", False)), "trouble": bool(getattr(c, "trouble", False)),
            "qinv": qinv, "qcomplete": bool(complete), "qexit": c.qexit if qinv else 0, "qsig": bool(qinv and c.qdie == "sig"), "qtext": qtext,
            "acks": acks, "body": list(c.body), "got": list(got), "recv": list(recv), "xs": list(c.sender), "gs": list(gs),
            "xr": [list(r) for r in c.rcpts], "gr": [list(r) for r in gr], "note": c.note}


def gen_cases(rng, thorough):
    cs = []
    body = b"Subject: t\n\nline one\nline two\n"
    s, r1, r2 = b"s@sender.test", b"a@rh.test", b"b@rh.test"
    # ---- every exit status of the queue program (all three daemons; SMTP for all 0..255)
    for ex in range(256):
        cs.append(Case("smtp", body, s, [r1], qexit=ex, note="exit%d" % ex))
    for proto in ("qmtp", "qmqp"):
        for ex in ([0, 1, 10, 11, 12, 31, 40, 41, 51, 52, 53, 54, 55, 56, 61, 62, 63, 64, 65, 66, 71, 72, 73, 74, 81, 82, 91, 99, 100, 111, 115, 120, 255] if not thorough else range(256)):
            cs.append(Case(proto, body, s, [r1, r2], qexit=ex, note="exit%d" % ex))
    for proto in ("smtp", "qmtp", "qmqp"):
        for text in ("Dpermanent custom refusal\n", "Ztemporary custom refusal\n", "", "D\n", "Xneither\n", "Dx" * 200):
            cs.append(Case(proto, body, s, [r1], qexit=82, qtext=text, note="82:" + text[:3].strip()))
        cs.append(Case(proto, body, s, [r1], qexit=0, qdie="sig", note="killed"))
        cs.append(Case(proto, body, s, [r1], qexit=53, qdie="early", note="early53"))
    # ---- size limit: body one byte under / at / over databytes
    for proto in ("smtp", "qmtp"):
        for db in (40, 57, 200):
            for n in (db - 1, db, db + 1, db + 2, 3 * db):
                b = (b"x" * 9 + b"\n") * (n // 10) + b"y" * (n % 10 - 1) + (b"\n" if n % 10 else b"")
                b = b[:n - 1] + b"\n" if n > 0 else b""
                if len(b) != n:
                    continue
                cs.append(Case(proto, b, s, [r1], over=1 if n > db else 0, databytes=db, note="size%d/%d" % (n, db)))
                if proto == "qmtp":      # DOS format message (CR LF line ends): the limit applies to the converted message
                    cs.append(Case(proto, b, s, [r1], over=1 if n > db else 0, databytes=db, wire_body=b"\r" + b.replace(b"\n", b"\r\n"), note="dossize%d/%d" % (n, db)))
    # ---- size limit and bytes that take an unusual way through the decoder: k bare CRs (CR followed by neither LF nor CR), CR CR,
    # dot-stuffed lines - every stored byte counts, so with a stored length of databytes + 1 .. + 3 the message is too large
    for db in (40, 64):
        for n in (db - 1, db, db + 1, db + 2, db + 3):
            for k, piece in ((1, b"a\rb"), (3, b"\rb\rb\rb"), (2, b"\r\rX"), (1, b"\n.dot\n"), (2, b"\n..\n.\rq\n")):
                head = b"Subject: t\n\n" + piece
                if len(head) + 1 > n:
                    continue
                b = head + b"z" * (n - len(head) - 1) + b"\n"
                wire = None
                if b"\n." in b:
                    wire = b.replace(b"\n.", b"\n..").replace(b"\n", b"\r\n")
                cs.append(Case("smtp", b, s, [r1], over=1 if n > db else 0, databytes=db, wire_body=wire, note="crsize%d/%d/%d%s" % (n, db, k, piece[:2].hex())))
    # ---- hop limit (SMTP): 98..101 Received / Delivered-To fields in any case
    for k in (0, 1, 98, 99, 100, 101, 150):
        for style in range(3):
            names = [b"Received: by hop", b"received: by hop", b"RECEIVED: by hop", b"Delivered-To: u@h", b"DELIVERED-TO: u@h", b"delivered-to: u@h"]
            hdr = b"".join((names[(i + style) % len(names)] if style else names[0]) + b"%d\n" % i for i in range(k))
            b = hdr + b"Subject: hops\n\nbody\nReceived: not a header\n"
            cs.append(Case("smtp", b, s, [r1], hops=1 if k >= 100 else 0, note="hops%d" % k))
        # look-alikes that are not Received/Delivered-To fields must not count
        b = b"".join(b"X-Received: by hop%d\nReceive: no\n" % i for i in range(120)) + b"Subject: x\n\nb\n"
    cs.append(Case("smtp", b, s, [r1], hops=0, note="lookalikes"))
    # ---- addresses: QMTP per-recipient policy / length / NUL, sender length / NUL; QMQP any bad address
    longa = b"l" * 995 + b"@rh.test"
    nearlong = b"l" * 980 + b"@rh.test"
    nul = b"a\0b@rh.test"
    for rc_, kinds in (([r1, b"x@other.test"], ["ok", "deny"]), ([b"x@other.test"], ["deny"]), ([r1, longa, r2], ["ok", "bad", "ok"]), ([nul, r1], ["bad", "ok"]),
                       ([nearlong, r1], ["ok", "ok"]), ([b"X@RH.TEST", b"noat"], ["ok", "ok"]), ([longa], ["bad"])):
        cs.append(Case("qmtp", body, s, rc_, rc=kinds, note="qmtp-rcpts"))
    for snd in (longa, nul, b"l" * 1000):
        cs.append(Case("qmtp", body, snd, [r1], sbad=1, note="qmtp-sender"))
        cs.append(Case("qmqp", body, snd, [r1], sbad=1, note="qmqp-sender"))
    cs.append(Case("qmtp", body, nearlong, [r1], note="qmtp-sender-ok"))
    cs.append(Case("qmtp", body, b"", [r1], note="qmtp-null-sender"))
    for rc_, kinds in (([r1, longa], ["ok", "bad"]), ([nul], ["bad"]), ([r1, r2, nearlong], ["ok", "ok", "ok"]), ([b"x@anywhere.test"], ["ok"])):
        cs.append(Case("qmqp", body, s, rc_, rc=kinds, note="qmqp-rcpts"))
    # ---- hostile peer strings in the Received field
    for u in UNSAFE:
        for proto in ("smtp", "qmtp", "qmqp"):
            cs.append(Case(proto, body, s, [r1], env={"TCPREMOTEHOST": u or "unknown", "TCPREMOTEINFO": u, "TCPREMOTEIP": u or "1.2.3.4", "TCPLOCALHOST": u or "h"},
                           helo=(u.replace("\n", " ").replace("\r", " ") or "x"), note="peer:" + repr(u)[:12]))
    # ---- several messages on one connection: every ordered pair of message kinds, seeded triples
    def qmtp_part(kind):
        big = b"Subject: big\n\n" + b"x" * 80 + b"\n"
        return {"good": lambda: Case("qmtp", body, s, [r1]), "good2": lambda: Case("qmtp", b"Subject: two\n\nsecond\n", b"s2@sender.test", [r2, r1]),
                "nul": lambda: Case("qmtp", body, s, [nul], rc=["bad"]), "long": lambda: Case("qmtp", body, s, [longa], rc=["bad"]),
                "deny": lambda: Case("qmtp", body, s, [b"x@other.test"], rc=["deny"]), "norcpt": lambda: Case("qmtp", body, s, [], rc=[]),
                "mixed": lambda: Case("qmtp", body, s, [longa, r1], rc=["bad", "ok"]), "over": lambda: Case("qmtp", big, s, [r1], over=1),
                "sbad": lambda: Case("qmtp", body, nul, [r1], sbad=1)}[kind]()

    def smtp_part(kind):
        big = b"Subject: big\n\n" + b"x" * 80 + b"\n"
        hop = b"".join(b"Received: by hop%d\n" % i for i in range(100)) + b"Subject: h\n\nb\n"
        return {"good": lambda: Case("smtp", body, s, [r1]), "good2": lambda: Case("smtp", b"Subject: two\n\nsecond\n", b"s2@sender.test", [r2, r1]),
                "over": lambda: Case("smtp", big, s, [r1], over=1), "hops": lambda: Case("smtp", hop, s, [r1], hops=1)}[kind]()
    qk = ["good", "good2", "nul", "long", "deny", "norcpt", "mixed", "over", "sbad"]
    sk = ["good", "good2", "over", "hops"]
    for a_ in qk:
        for b_ in qk:
            cs.append(Multi("qmtp", [qmtp_part(a_), qmtp_part(b_)], "multi:%s,%s" % (a_, b_), databytes=60))
    for a_ in sk:
        for b_ in sk:
            cs.append(Multi("smtp", [smtp_part(a_), smtp_part(b_)], "multi:%s,%s" % (a_, b_), databytes=60))
    for _ in range(500 if thorough else 30):
        ks = [rng.choice(qk) for _ in range(rng.choice([3, 4, 5] if thorough else [3, 4]))]
        cs.append(Multi("qmtp", [qmtp_part(k) for k in ks], "multi:" + ",".join(ks), databytes=60))
        ks = [rng.choice(sk) for _ in range(rng.choice([3, 4]))]
        cs.append(Multi("smtp", [smtp_part(k) for k in ks], "multi:" + ",".join(ks), databytes=60))
    # ---- every cut point of a small transaction
    small = Case("smtp", b"Subject: c\n\nb\n", s, [r1])
    for proto in ("smtp", "qmtp", "qmqp"):
        base = Case(proto, b"Subject: c\n\nb\n", s, [r1, r2] if proto != "smtp" else [r1])
        full = {"smtp": smtp_stream, "qmtp": qmtp_stream, "qmqp": qmqp_stream}[proto](base)
        end = len(full) - (len(b"QUIT\r\n") if proto == "smtp" else 0)
        for cut in range(0, end):
            c_ = Case(proto, base.body, s, list(base.rcpts), cut=cut, note="cut%d" % cut)
            c_.incomplete = True            # every one of these stops before the request is complete: nothing may be queued
            cs.append(c_)
        # the complete request with its very last byte replaced (QMTP / QMQP: the closing comma of the last netstring)
        if proto != "smtp":
            for bad in (b";", b"\n", b"0", b"\0", b":"):
                c_ = Case(proto, base.body, s, list(base.rcpts), note="badlast%d" % bad[0])
                c_.lastbyte = bad
                c_.incomplete = True
                c_.cut = len(full)           # (judged like a disconnect: no reply is demanded)
                cs.append(c_)
    return cs



def e2e_cases(rng, thorough):
    """the daemons in front of the REAL qmail-queue (no stand-in): the contract between qmail.c (a message is given up by never
    sending the envelope's final empty record) and qmail-queue (an envelope that ends anywhere else is refused) holds only if both
    sides keep it - so the transactions that are given up are placed so that what qmail.c has already flushed (1024-byte buffer)
    ends exactly at, one before and one after the end of an address record"""
    cs = []
    body = b"Subject: e2e\n\nthrough the real queue program\n"
    nul = b"nu\0l@rh.test"
    for proto in ("qmqp", "qmtp", "smtp"):
        cs.append(Case(proto, body, b"s@sender.test", [b"a@rh.test", b"b@rh.test"] if proto != "smtp" else [b"a@rh.test"], note="e2e-good"))
    for B in ((1024, 2048, 3072) if thorough else (1024, 2048)):
        for delta in (-1, 0, 1):
            for nbefore in ((1, 3, 9) if thorough else (1, 9)):
                # F sender \0 (T rcpt \0) x nbefore  ==  B + delta bytes
                total = B + delta
                sender = b"s@sender.test"
                left = total - (len(sender) + 2)
                per = left // nbefore
                rc = []
                for j in range(nbefore):
                    ln = (per if j < nbefore - 1 else left - per * (nbefore - 1)) - 2
                    if ln < 10 or ln > 900:
                        rc = None
                        break
                    rc.append((b"r%d-" % j) + b"x" * (ln - len(b"r%d-" % j) - len(b"@rh.test")) + b"@rh.test")
                if rc is None:
                    continue
                assert len(sender) + 2 + sum(len(r) + 2 for r in rc) == total
                good = rc + [b"one-more@rh.test"]
                tag = "e2e-B%d%+d-n%d" % (B, delta, nbefore)
                cs.append(Case("qmqp", body, sender, good + [nul], rc=["ok"] * len(good) + ["bad"], note=tag + "-nul"))
                cs.append(Case("qmqp", body, sender, good, note=tag + "-good"))
                cs.append(Case("qmtp", body, sender, good, note=tag + "-good"))
                for proto in ("qmtp", "qmqp"):
                    c_ = Case(proto, body, sender, good, note=tag + "-cutlast")
                    full = {"qmtp": qmtp_stream, "qmqp": qmqp_stream}[proto](c_)
                    c_.cut = len(full) - 1
                    c_.incomplete = True
                    cs.append(c_)
                c_ = Case("qmtp", body, sender, good, note=tag + "-badcomma")
                c_.lastbyte = b";"
                c_.incomplete = True
                c_.cut = len(qmtp_stream(c_))
                cs.append(c_)
    for c in cs:
        c.e2e = True
    return cs


def run_e2e(tree, ids, c):
    """one session against the real queue program; returns (out, subs) with subs in the stand-in's record form"""
    sandbox.clear_queue(tree.root)
    env = sandbox.shim_env(tree, ids=ids)
    env.update(ENV0)
    env.pop("RELAYCLIENT", None)
    env.pop("QMAILQUEUE", None)
    stream = {"smtp": smtp_stream, "qmtp": qmtp_stream, "qmqp": qmqp_stream}[c.proto](c)
    if c.cut is not None:
        stream = stream[: c.cut]
    if getattr(c, "lastbyte", None):
        stream = stream[:-1] + c.lastbyte
    binary = {"smtp": "qmail-smtpd", "qmtp": "qmail-qmtpd", "qmqp": "qmail-qmqpd"}[c.proto]
    out, rc, to = sessions.run_daemon([tree.bin(binary)], stream, env, cwd=tree.root, timeout=30)
    q = sandbox.list_queue(tree.root, with_data=True)
    subs = []
    for (d, n), v in sorted(q.items()):
        if d != "todo":
            continue
        parts = v["data"].split(b"\0", 2)
        rest = parts[2] if len(parts) == 3 and parts[0].startswith(b"u") and parts[1].startswith(b"p") else v["data"]
        mess = q.get(("mess", n), {}).get("data", b"")
        i = mess.find(b"\n")
        subs.append({"msg": mess[i + 1:] if mess.startswith(b"Received: (qmail ") and i >= 0 else mess, "env": rest + b"\0", "exit": 0})
    if not subs:
        subs = [{"msg": b"", "env": b"", "exit": 0}]          # the queue program was started and did not commit
    return out, subs


def main():
    ap = argparse.ArgumentParser()
    ap.add_argument("--tier", default=os.environ.get("VERIF_TIER", "quick"))
    ap.add_argument("--replay")
    a = ap.parse_args()
    ck = Check("C07", a.tier)
    thorough = a.tier == "thorough"

    res = need_ok(tlc("IngestModel", "IngestModel.cfg", workers=NCPU, timeout=900, heap="6g"), "IngestModel")
    ck.add_tlc("IngestModel", res)
    if res.violated:
        ck.model_violation("IngestModel", res)

    tree = build_tree(ck.scratch, split=3)
    with open(os.path.join(tree.root, "control", "rcpthosts"), "w") as f:
        f.write("rh.test\nsender.test\n")
    clock = ck.scratch.path("clock")
    qq = sessions.QQDir(ck.scratch.path("qq"))
    cases = gen_cases(ck.rng, thorough)
    if a.replay:
        note = json.load(open(a.replay))["case"]["note"]
        proto = json.load(open(a.replay))["case"]["proto"]
        cases = [c for c in cases if (c.note == note or (isinstance(c, Multi) and note.startswith(c.note + "#"))) and c.proto == proto]
    # ---- one failing or short system call of the daemon per run (every call of a standard transaction): whatever fails, a
    # positive acknowledgement still means exactly that message was queued (judged like a disconnect: an acknowledgement may
    # be missing, never wrong)
    if not a.replay:
        s_, r1_, r2_ = b"s@sender.test", b"a@rh.test", b"b@rh.test"
        fbody = b"Subject: f\n\n" + b"".join(b"line %03d of a body that is long enough to need more than one write\n" % i for i in range(40))
        for proto in ("smtp", "qmtp", "qmqp"):
            tr = ck.scratch.path("fault0.%s.trace" % proto)
            c0 = Case(proto, fbody, s_, [r1_, r2_] if proto != "smtp" else [r1_], note="faultprobe")
            c0.fault = (0, "", tr)
            run_case(tree, qq, 0, c0)
            ncalls = len([e for e in sandbox.read_trace(tr) if "qmail-" + {"smtp": "smtpd", "qmtp": "qmtpd", "qmqp": "qmqpd"}[proto] in e.get("r", "") and e.get("c") not in ("exit", "start", "hello")])
            if ncalls < 5:
                raise Infra("the traced %s daemon made only %d intercepted calls" % (proto, ncalls))
            for k in range(1, ncalls + 3):
                for what in (("5", "short1", "short100") if (thorough or k % 2) else ("5",)):
                    c = Case(proto, fbody, s_, [r1_, r2_] if proto != "smtp" else [r1_], cut=None, note="fault%d/%s" % (k, what))
                    c.fault = (k, what, ck.scratch.path("faultrun.trace"))
                    c.isfault = True
                    cases.append(c)
        qq.collect()
    jobs = list(enumerate(cases, 1))
    results = sessions.pmap(lambda j: run_case(tree, qq, j[0], j[1]), jobs, workers=NCPU)
    subs = qq.collect()
    recs = []
    hung = 0
    for (idx, c), (out, rc, to) in zip(jobs, results):
        if to:
            hung += 1
        if isinstance(c, Multi):
            for r in multi_records(c, out, subs.get("s%d" % idx, [])):
                recs.append(r)
                ck.count((c.proto, r["note"], len(r["body"])), nontrivial=True)
            continue
        recs.append(make_record(c, out, subs.get("s%d" % idx, [])))
        ck.count((c.proto, c.note, len(c.body)), nontrivial=True)
    # ---- resource trouble: the compiled extra recipient-host list cannot be read (zero length / cut short / a directory): a
    # recipient that only it could allow gets a TEMPORARY refusal (or none at all), never a permanent one, and nothing is queued
    if not a.replay:
        ctl = os.path.join(tree.root, "control")
        with open(os.path.join(ctl, "morercpthosts"), "w") as f:
            f.write("more.test\n.wild.test\n")
        r_ = run([tree.bin("qmail-newmrh")], cwd=tree.root)
        if r_.returncode != 0:
            raise Infra("qmail-newmrh failed")
        good = open(os.path.join(ctl, "morercpthosts.cdb"), "rb").read()
        nbase = len(jobs)
        for dmg in ("empty", "header", "dir"):
            cdb = os.path.join(ctl, "morercpthosts.cdb")
            if os.path.isdir(cdb):
                os.rmdir(cdb)
            elif os.path.exists(cdb):
                os.unlink(cdb)
            if dmg == "dir":
                os.mkdir(cdb)
            else:
                with open(cdb, "wb") as f:
                    f.write(b"" if dmg == "empty" else good[:2048])
            for proto in ("smtp", "qmtp"):
                nbase += 1
                c = Case(proto, b"Subject: r\n\nbody\n", b"s@sender.test", [b"u@more.test"], rc=["trouble"], note="mrh-%s" % dmg)
                c.trouble = True
                out, rc_, to = run_case(tree, qq, nbase, c)
                rec = make_record(c, out, qq.collect().get("s%d" % nbase, []))
                if proto == "smtp":
                    codes_ = [x for x, _ in sessions.smtp_replies(out)]
                    rec["acks"] = [str(x // 100) for x in codes_[3:4]]          # the reply to RCPT
                recs.append(rec)
                ck.count((proto, c.note, 0), nontrivial=True)
        cdb = os.path.join(ctl, "morercpthosts.cdb")
        if os.path.isdir(cdb):
            os.rmdir(cdb)
        elif os.path.exists(cdb):
            os.unlink(cdb)
        os.unlink(os.path.join(ctl, "morercpthosts"))
    # ---- end to end: the same daemons in front of the real qmail-queue
    if not a.replay or "e2e" in json.load(open(a.replay))["case"].get("note", ""):
        ids = sandbox.write_ids(ck.scratch.path("ids"), tree.root)
        ne2e = 0
        for c in e2e_cases(ck.rng, thorough):
            out, subs_ = run_e2e(tree, ids, c)
            recs.append(make_record(c, out, subs_))
            ck.count((c.proto, c.note, len(c.body)), nontrivial=True)
            ne2e += 1
        sandbox.clear_queue(tree.root)
        ck.cov["sessions_through_the_real_queue_program"] = ne2e
        ck.cov["of_which_committed"] = sum(1 for r in recs[-ne2e:] if r["qcomplete"])
    if hung > 3:
        raise Infra("%d sessions hung" % hung)
    recfile = ck.scratch.path("c07.ndjson")
    write_ndjson(recfile, [{k: v for k, v in r.items() if k != "note"} for r in recs])
    bad, vres = tlc_validate_records("IngestRec", "IngestRec.cfg", recfile, len(recs), chunk=100, heap="8g")
    ck.add_tlc("IngestRec", vres)
    ck.cov["traces_validated_against_impl"] = len(recs)
    ck.cov["by_protocol"] = {p: sum(1 for r in recs if r["proto"] == p) for p in ("smtp", "qmtp", "qmqp")}
    ck.cov["positive_acknowledgements"] = sum(1 for r in recs if any(x in ("2", "K") for x in r["acks"]))
    for r in [recs[0], recs[300], recs[-1]]:
        ck.sample({"proto": r["proto"], "case": r["note"], "acks": r["acks"], "queue_program": {"started": r["qinv"], "envelope_complete": r["qcomplete"], "exit": r["qexit"]},
                   "received_field": bytes(r["recv"]).decode("latin1")})
    best = {}
    for idx, why in bad:
        r = recs[idx - 1]
        why = why.strip('"')
        k = (why, r["proto"])
        if k not in best:
            best[k] = r
    for (why, proto), r in sorted(best.items()):
        ck.violation("%s:%s:%s" % (why, proto, r["note"].replace(" ", "_")), "%s case %s: acks %s, queue program started=%s complete=%s exit=%s" % (
            proto, r["note"], r["acks"], r["qinv"], r["qcomplete"], r["qexit"]), {"proto": proto, "note": r["note"]})
    ck.cov["rule"] = ("SMTP: every queue exit status 0..255, custom texts, death by signal / early exit, bodies of databytes-1/0/+1/+2 for three limits, 0/1/98/99/100/101/150 hop fields in "
                      "three case styles, hostile HELO/TCPREMOTE* strings, every cut point of a small session; QMTP/QMQP: exit statuses, sizes (LF and DOS format), per-recipient policy / "
                      "over-long / NUL addresses, bad senders, every cut point; several messages on one connection (QMTP: every ordered pair of 9 message kinds, SMTP: of 4, seeded triples and quadruples); distinct by (protocol, case, body length)")
    ck.assumptions += ["'queued' = the stand-in queue program saw the envelope terminator and exited 0 (a queue program killed after its commit point is outside the quantifier)",
                       "exit codes 100..255 and 115 are not queue-program codes: any negative reply is accepted for them"]
    ck.finish()


if __name__ == "__main__":
    main_wrapper(main)
