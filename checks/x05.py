#!/usr/bin/env python3
"""X05 (beyond the listed properties) What the queue records about where a message came from: qmail-queue's Received line names the
invoking user class or uid, its process id and the time of acceptance; the envelope file starts with that uid and process id.

  model   spec/Origin.tla over spec/Datetime.tla (the calendar is checked by DatetimeModel, see X03)
  impl    the real qmail-queue under the shim with a virtual clock and a chosen invoking uid (alias, the network daemons' user, the
          bounce sender's user, root, arbitrary uids up to 2^32 - 2): what it leaves in mess/ and todo/
  verdict spec/OriginRec.tla (byte for byte against the specification's text)
This check is not part of MANIFEST.json (the property list is fixed); it is specification coverage beyond the list.
"""
import sys, os, json, argparse, subprocess, glob
sys.path.insert(0, os.path.join(os.path.dirname(os.path.abspath(__file__)), "..", "lib"))
from vlib import *
import sandbox


def one_run(tree, ids, work, i, uid, clock, msg, sender, rcpts):
    sandbox.clear_queue(tree.root)
    clockf = os.path.join(work, "clock")
    with open(clockf, "w") as f:
        f.write("%d\n" % clock)
    env = sandbox.shim_env(tree, ids=ids, clock=clockf, extra={"VERIF_GETUID": str(uid), "VERIF_NOALARM": "1"})
    envelope = b"F" + sender + b"\0" + b"".join(b"T" + r + b"\0" for r in rcpts) + b"\0"
    rfd, wfd = os.pipe()
    os.write(wfd, envelope)
    os.close(wfd)
    p = subprocess.Popen([tree.bin("qmail-queue")], stdin=subprocess.PIPE, stdout=rfd, stderr=subprocess.PIPE, env=env)
    os.close(rfd)
    try:
        p.communicate(msg, timeout=60)
    except subprocess.TimeoutExpired:
        p.kill()
        p.communicate()
        raise Infra("qmail-queue did not finish within 60 s")
    q = os.path.join(tree.root, "queue")
    mess = [f for f in glob.glob(os.path.join(q, "mess", "*", "*")) if os.path.isfile(f)]
    todo = [f for f in glob.glob(os.path.join(q, "todo", "*")) if os.path.isfile(f)]
    mb = open(mess[0], "rb").read() if len(mess) == 1 else b"?%d files" % len(mess)
    tb = open(todo[0], "rb").read() if len(todo) == 1 else b"?%d files" % len(todo)
    return {"pid": p.pid, "uid": uid, "ids": {"alias": sandbox.USERS["alias"], "daemon": sandbox.USERS["qmaild"], "send": sandbox.USERS["qmails"]},
            "day": clock // 86400, "tod": clock % 86400, "msg": list(msg), "sender": list(sender), "rcpts": [list(r) for r in rcpts],
            "mess": list(mb), "envf": list(tb), "exit": p.returncode}


def main():
    ap = argparse.ArgumentParser()
    ap.add_argument("--tier", default=os.environ.get("VERIF_TIER", "quick"))
    ap.add_argument("--replay")
    a = ap.parse_args()
    ck = Check("X05", a.tier)
    thorough = a.tier == "thorough"
    rng = ck.rng
    tree = build_tree(ck.scratch, split=3)
    ids = sandbox.write_ids(ck.scratch.path("ids"), tree.root)
    work = ck.scratch.sub("work")
    U = sandbox.USERS
    uids = [U["alias"], U["qmaild"], U["qmails"], 0, U["qmailq"], U["qmailr"], 1, 1000, 65534, 2 ** 31 - 1]
    recs = []
    n = 600 if thorough else 150
    for i in range(n):
        uid = uids[i % len(uids)] if i < 3 * len(uids) else rng.choice(uids + [rng.randrange(1, 2 ** 31 - 1)])
        clock = rng.choice([rng.randrange(0, 2 ** 31 - 1), 951782400 + rng.randrange(-86400, 86400), 1790000000 + rng.randrange(10 ** 7), 0, 86399, 2 ** 31 - 2])
        msg = rng.choice([b"", b"Subject: t\n\nbody\n", b"Received: (qmail 1 invoked by alias); 1 Jan 1970 00:00:00 -0000\n\nforged\n", bytes(rng.randrange(256) for _ in range(rng.randint(1, 3000)))])
        sender = rng.choice([b"", b"s@origin.test", b"u0\0p0"[:2] + b"@x.test"])
        rcpts = [b"r%d@dest.test" % k for k in range(rng.choice([0, 1, 2, 5]))]
        recs.append(one_run(tree, ids, work, i, uid, clock, msg, sender, rcpts))
        ck.count((uid, clock, len(msg), len(rcpts)), nontrivial=True)
    f = ck.scratch.path("x05.ndjson")
    write_ndjson(f, recs)
    bad, res = tlc_validate_records("OriginRec", "OriginRec.cfg", f, len(recs), chunk=20, heap="6g", timeout=1500)
    ck.add_tlc("OriginRec", res)
    ck.cov["traces_validated_against_impl"] = len(recs)
    ck.cov["runs_by_invoking_class"] = {k: sum(1 for r in recs if r["uid"] == v) for k, v in (("alias", U["alias"]), ("network", U["qmaild"]), ("bounce", U["qmails"]), ("root", 0))}
    ck.sample({"received_line": bytes(recs[3]["mess"]).split(b"\n")[0].decode("latin1"), "envelope_file": bytes(recs[3]["envf"])[:60].decode("latin1")})
    best = {}
    for idx, why in bad:
        why = why.strip('"')
        if why not in best:
            best[why] = idx
    for why, idx in sorted(best.items()):
        r = recs[idx - 1]
        ck.violation("origin:%s:uid=%d" % (why, r["uid"]), "invoked by uid %d as process %d at %d: stored %r..., envelope file %r..." % (r["uid"], r["pid"], r["day"] * 86400 + r["tod"], bytes(r["mess"])[:90], bytes(r["envf"])[:50]), r)
    ck.cov["rule"] = "distinct (invoking uid, clock, message length, recipient count)"
    ck.finish()


if __name__ == "__main__":
    main_wrapper(main)
